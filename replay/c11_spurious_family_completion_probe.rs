// Replay for finding F-C11-1 (property C11, obligation C11.family_released_only_when_no_helper_is_awaited_for_it of
// RestartingDeferral::process).
//
// Paste into the `mod tests` of daemon/src/gr.rs (it uses that module's helpers `make_deferral`, `peer`, `ipv4`, `ipv6`,
// `rd_complete_families`) and run `cargo test -p rustybgpd --offline c11_eor_for_a_family_not_awaited`.
//
// In the Deferring state, End-of-RIB for a family from a peer that is still awaited for *other* families emitted
// FamilyDeferralComplete(family) whenever no entry awaited that family — also when the family had been completed
// before, or was never deferred. The driver answers FamilyDeferralComplete with Table::end_deferral(family), which
// emits every Loc-RIB path of the family: all of them are announced a second time.

#[test]
fn c11_eor_for_a_family_not_awaited() {
    let (mut rd, _) = make_deferral(&[(peer(1), vec![ipv4()]), (peer(2), vec![ipv6()])]);
    rd.process(RestartingInput::PeerEstablished(peer(1), vec![ipv4()]));
    rd.process(RestartingInput::PeerEstablished(peer(2), vec![ipv6()]));
    // peer 1 finishes IPv4: the family completes (nobody else is awaited for it)
    let out = rd.process(RestartingInput::EorReceived(peer(1), ipv4()));
    assert_eq!(rd_complete_families(&out), vec![ipv4()]);
    // peer 2 (awaited for IPv6 only) also sends End-of-RIB for IPv4: IPv4 must not complete a second time
    let out = rd.process(RestartingInput::EorReceived(peer(2), ipv4()));
    assert_eq!(rd_complete_families(&out), vec![], "IPv4 was released already");
    assert!(!rd.is_completed());
}
