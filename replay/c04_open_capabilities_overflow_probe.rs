// Probe for finding F-C04-2 (append to packet/src/bgp.rs of a scratch copy and run
//   cargo test -p rustybgp-packet --offline probe_open_with_many_capabilities -- --nocapture):
// do_encode sums the encoded capability lengths in a u8 (`cap_len += cap.encode(dst).unwrap()`) and writes cap_len and
// cap_len + 2 into the one-byte parameter-length fields: an OPEN whose capabilities take more than 253 bytes overflows
// (debug: panic 'attempt to add with overflow'; release: wrapped lengths, i.e. a malformed OPEN).  Twenty address
// families with multiprotocol, graceful-restart and long-lived graceful-restart capabilities are enough.
#[cfg(test)]
mod vx_probe_c04c {
    use super::*;
    #[test]
    fn probe_open_with_many_capabilities() {
        let fams = [Family::IPV4, Family::IPV6, Family::IPV4_VPN, Family::IPV6_VPN, Family::IPV4_FLOWSPEC, Family::IPV6_FLOWSPEC,
                    Family::IPV4_FLOWSPEC_VPN, Family::IPV6_FLOWSPEC_VPN, Family::IPV4_SRPOLICY, Family::IPV6_SRPOLICY,
                    Family::IPV4_MC, Family::IPV6_MC, Family::L2VPN_EVPN, Family::RTC, Family::IPV4_MPLS, Family::IPV6_MPLS];
        let mut caps: Vec<Capability> = fams.iter().map(|f| Capability::MultiProtocol(*f)).collect();
        caps.push(Capability::GracefulRestart { flags: 0, restart_time: 120, families: fams.iter().map(|f| (*f, 0x80u8)).collect() });
        caps.push(Capability::LongLivedGracefulRestart(fams.iter().map(|f| (*f, 0x80u8, 3600u32)).collect()));
        let open = Message::Open(Open { as_number: 65001, holdtime: HoldTime::new(90).unwrap(), router_id: 0x0a000001, capability: caps });
        let mut codec = PeerCodec::new();
        let mut buf = bytes::BytesMut::new();
        codec.encode_to(&open, &mut buf).unwrap();
        // optional parameters length (byte 28) must cover everything after it
        assert_eq!(buf[28] as usize, buf.len() - 29, "optional-parameter length field does not match the bytes written");
    }
}
