// Replay for known finding F-C04-5 (property C04, obligation "C04.cover.attribute_block_fits_the_negotiated_frame", finding
// twin of PeerCodec::do_encode in unit packet_encode).
//
// Paste into `mod update_tests` of packet/src/bgp.rs and run
//   cargo test -p rustybgp-packet --offline c04_attribute_block
//
// do_encode's contract holds under the precondition that the attribute block and one MP_REACH header fit the negotiated
// frame (A-C04-3).  Nothing establishes it: attributes received from a peer with extended messages and re-advertised to one
// without give a frame of more than 4096 octets, and the other prefixes of the UPDATE are never sent.

    #[test]
    fn c04_attribute_block_larger_than_the_frame_budget() {
        // A route whose attributes nearly fill a 4096-octet frame (a 4060-octet COMMUNITY, as a peer with extended messages
        // may send it) is advertised, with nine more prefixes sharing the attributes, to a peer WITHOUT extended messages.
        let mut attrs = (*ipv4_attrs("192.0.2.254".parse().unwrap())).clone();
        let mut comm = Vec::new();
        for i in 0..1015u32 {
            comm.extend_from_slice(&(0xfde8_0000u32 | i).to_be_bytes());
        }
        attrs.push(Attribute::new_with_bin(Attribute::COMMUNITY, comm).unwrap());
        let entries: Vec<PathNlri> = (0..10u8).map(|i| ipv4_prefix(&format!("10.{i}.0.0"), 16)).collect();
        let msg = Message::Update(Update::Reach {
            family: Family::IPV4,
            entries: entries.clone(),
            nexthop: None,
            attr: Arc::new(attrs),
        });
        let mut codec = ipv4_codec();
        let mut out = Vec::new();
        codec.encode_to(&msg, &mut out).unwrap();
        // walk the frames
        let mut pos = 0usize;
        let mut seen = 0usize;
        while pos < out.len() {
            let len = u16::from_be_bytes([out[pos + 16], out[pos + 17]]) as usize;
            assert!(len <= 4096, "a {len}-octet frame was emitted to a peer whose maximum message size is 4096");
            if let ParsedMessage::Update(ParsedUpdate::Routes { reach: Some(r), .. }) =
                ipv4_codec().parse_message(&out[pos..pos + len]).unwrap()
            {
                seen += r.entries.len();
            }
            pos += len;
        }
        assert_eq!(seen, entries.len(), "prefixes were dropped");
    }
