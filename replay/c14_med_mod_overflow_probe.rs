// Replay for finding F-C14-5 (property C14, obligation "possible arithmetic underflow/overflow at
// `current as i64 + action.value`" in Statement::apply).
//
// Paste into the `mod tests` of table/src/policy.rs and run
//   cargo test -p rustybgp-table --offline c14_med_mod_overflow
//
// The MED action's value is an i64 taken unchecked from the gRPC API (api::MedAction.value is int64). With
// MedActionType::Mod the statement computed `current as i64 + action.value` before clamping: a delta of i64::MAX on a
// route whose MED is at least 1 overflows — a panic in a build with overflow checks, inside policy evaluation of a
// received route; without them the sum wraps negative and the MED is clamped to 0 instead of u32::MAX.

#[test]
fn c14_med_mod_overflow() {
    let mut ptable = PolicyTable::new();
    ptable
        .add_statement(
            "st1",
            vec![],
            Some(Disposition::Accept),
            Actions {
                med: Some(MedAction {
                    action_type: MedActionType::Mod,
                    value: i64::MAX,
                }),
                ..Default::default()
            },
        )
        .unwrap();
    ptable.add_policy("p1", vec!["st1".to_string()]).unwrap();
    let (_, assignment) = ptable
        .add_assignment(
            "global",
            PolicyDirection::Import,
            Disposition::Accept,
            vec!["p1".to_string()],
        )
        .unwrap();
    let src = import_source(1);
    let net: packet::Nlri = "10.1.2.0/24".parse().unwrap();
    let attr = Arc::new(vec![
        packet::Attribute::new_with_value(packet::Attribute::MULTI_EXIT_DESC, 1).unwrap(),
    ]);
    let mut nh = Some(bgp::Nexthop::V4(Ipv4Addr::new(10, 0, 0, 1)));
    let (_, out) = apply_import(&assignment, None, &src, &net, &attr, &mut nh);
    let med = out
        .iter()
        .find(|a| a.code() == packet::Attribute::MULTI_EXIT_DESC)
        .and_then(|a| a.value());
    assert_eq!(med, Some(u32::MAX), "MED + delta saturates at the top of the range");
}
