// Replay for finding F-C05-2 (property C05, obligation "C05.cursor_stops_where_the_attribute_walk_stops" /
// "C05.truncated_attribute_block_is_recorded" in PeerCodec::parse_message, unit packet_parse).
//
// Paste into `mod update_tests` of packet/src/bgp.rs (next to raw_update_with_attrs / base_attrs_without_origin) and run
//   cargo test -p rustybgp-packet --offline c05_truncated
//
// The attribute walk of parse_message leaves the loop with `break` when the next attribute does not fit into the
// Total Path Attribute Length, and recorded the truncation only `if c.position() != attr_end`. By the time of the
// break the cursor has already consumed the flags / type (/ length) octets, so when the attribute block ends exactly
// behind a header (or behind the flags and type octets) the cursor IS at attr_end: nothing was recorded, the UPDATE
// counted as clean and 10.0.0.0/8 was installed although the attribute block is truncated (RFC 7606 §4: treat-as-withdraw).

    #[test]
    fn c05_truncated_attribute_header_at_block_end() {
        // ORIGIN, AS_PATH, NEXT_HOP well formed, then the header of a COMMUNITY attribute announcing 4 bytes of
        // value — and the attribute block ends right there (Total Path Attribute Length counts the header only).
        let mut attr_bytes = Vec::new();
        attr_bytes.extend_from_slice(&[0x40, 0x01, 0x01, 0x00]);
        attr_bytes.extend_from_slice(&base_attrs_without_origin());
        attr_bytes.extend_from_slice(&[0xC0, 0x08, 0x04]);
        let buf = raw_update_with_attrs(&attr_bytes);
        let parsed = ipv4_codec().parse_message(&buf).expect("parse must not fail");
        let msgs: Vec<Message> = validate_message(parsed, false).unwrap().collect();
        assert_eq!(msgs.len(), 1);
        assert!(
            matches!(&msgs[0], Message::Update(Update::Unreach { family, entries })
                if *family == Family::IPV4 && entries.len() == 1),
            "10.0.0.0/8 must be withdrawn: the attribute block is truncated inside the COMMUNITY attribute"
        );
    }

    #[test]
    fn c05_truncated_attribute_header_two_octets() {
        // the block ends after the flags and type octets of a fourth attribute (no length octet)
        let mut attr_bytes = Vec::new();
        attr_bytes.extend_from_slice(&[0x40, 0x01, 0x01, 0x00]);
        attr_bytes.extend_from_slice(&base_attrs_without_origin());
        attr_bytes.extend_from_slice(&[0xC0, 0x08]);
        let buf = raw_update_with_attrs(&attr_bytes);
        let parsed = ipv4_codec().parse_message(&buf).expect("parse must not fail");
        let msgs: Vec<Message> = validate_message(parsed, false).unwrap().collect();
        assert_eq!(msgs.len(), 1);
        assert!(
            matches!(&msgs[0], Message::Update(Update::Unreach { family, entries })
                if *family == Family::IPV4 && entries.len() == 1),
            "10.0.0.0/8 must be withdrawn: the attribute block ends inside an attribute header"
        );
    }
