// Demonstration of finding F-C02-2 against the real code (append to packet/src/bgp.rs of a scratch copy and run
//   cargo test -p rustybgp-packet --offline probe_as_path_length_300_hops):
// Attribute::as_path_length accumulated the hop count in a u8 (`let mut aslen = 0; aslen += l` with l: u8), so an
// AS_PATH of more than 255 hops — two AS_SEQUENCE segments of 150 ASes, 1204 bytes, accepted by Attribute::decode —
// panics with 'attempt to add with overflow' in a debug build and wraps to 44 in a release build (the best-path
// comparison then prefers a 300-hop path over a 45-hop one).
#[cfg(test)]
mod vx_probe_aspath {
    use super::*;
    #[test]
    fn probe_as_path_length_300_hops() {
        let mut bin = Vec::new();
        for _ in 0..2 { bin.push(Attribute::AS_PATH_TYPE_SEQ); bin.push(150u8); for i in 0..150u32 { bin.extend_from_slice(&(65000 + i).to_be_bytes()); } }
        let a = Attribute::new_with_bin(Attribute::AS_PATH, bin).unwrap();
        assert_eq!(a.as_path_length(), 300);
    }
}
