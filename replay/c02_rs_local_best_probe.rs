// Replay for finding F-C02-4 (property C02, obligation C02.rs_local_view_reports_the_best_eligible_path of
// Table::rs_local_paths).
//
// Paste into the `mod tests` of table/src/lib.rs (it uses that module's helpers `rs_source`, `nlri`, `nh`) and run
//   cargo test -p rustybgp-table --offline c02_rs_local_reports_best
//
// The route-server local-RIB view of a client ("the best path from all RS-client peers excluding the client itself",
// TableQuery::RsLocal, shown by the API) picked its path with `.max()` over the ordering in which `Less` means
// *better*: among several eligible paths it reported the one every other path beats.

#[test]
fn c02_rs_local_reports_best() {
    let peer1 = rs_source(1, 65001);
    let peer2 = rs_source(2, 65002);
    let peer3 = rs_source(3, 65003);
    let n1 = nlri(10, 0, 1, 0, 24);
    let lp = |v: u32| {
        Arc::new(vec![
            packet::Attribute::new_with_value(packet::Attribute::LOCAL_PREF, v).unwrap(),
        ])
    };
    let mut rt = Table::new(0);
    for (src, pref) in [(&peer2, 100u32), (&peer3, 200u32)] {
        rt.insert(
            src.clone(),
            Family::IPV4,
            n1.clone(),
            0,
            nh(),
            lp(pref),
            None,
            false,
            false,
            None,
            0u32,
        );
    }
    let dests: Vec<_> = rt
        .destinations(TableQuery::RsLocal(peer1.remote_addr), Family::IPV4, vec![], false)
        .collect();
    assert_eq!(dests.len(), 1);
    assert_eq!(dests[0].paths.len(), 1);
    assert_eq!(
        dests[0].paths[0].source.remote_addr,
        peer3.remote_addr,
        "LOCAL_PREF 200 beats LOCAL_PREF 100"
    );
}
