// Demonstration of F-C12-1 against the real code (run once by hand inside table/src/lib.rs as a #[cfg(test)] module;
// before fix e599c8f: both assertions' conditions were false; after: test passes).  Kept as the replay of the finding.
#[cfg(test)]
mod vx_tmp_c12 {
    use super::*;
    use std::net::{IpAddr, Ipv4Addr};
    use std::str::FromStr;
    #[test]
    fn c12_demo() {
        let mut t = RpkiTable::new();
        let cache = Arc::new(IpAddr::V4(Ipv4Addr::new(192, 0, 2, 1)));
        t.insert(packet::IpNet::from_str("10.0.0.0/8").unwrap(), Arc::new(Roa::new(16, 65001, cache.clone())));
        let src = Source::local();
        let mut asp = vec![2u8, 1];
        asp.extend_from_slice(&65001u32.to_be_bytes());
        let attr = Arc::new(vec![packet::Attribute::new_with_bin(packet::Attribute::AS_PATH, asp).unwrap()]);
        let net = packet::Nlri::from_str("10.1.0.0/16").unwrap();
        let r = t.validate(&src, &net, &attr).unwrap();
        let mut t2 = RpkiTable::new();
        t2.insert(packet::IpNet::from_str("10.1.2.0/24").unwrap(), Arc::new(Roa::new(24, 65001, cache.clone())));
        let r2 = t2.validate(&src, &net, &attr).unwrap();
        assert!(matches!(r.state, RpkiValidationState::Valid), "covered by 10.0.0.0/8-16 AS65001 must be Valid");
        assert!(matches!(r2.state, RpkiValidationState::NotFound), "a more specific VRP never influences the result");
    }
}
