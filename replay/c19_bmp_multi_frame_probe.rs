// Probe for finding F-C19-1 (append to packet/src/bmp.rs of a scratch copy and run
//   cargo test -p rustybgp-packet --offline probe_multi_frame -- --nocapture):
// a Route Monitoring message built from an UPDATE with more NLRI than fit in one 4096-byte BGP frame carries several
// BGP frames inside ONE BMP record (RFC 7854 §4.6: one Route Monitoring message encapsulates one BGP UPDATE PDU).
#[cfg(test)]
mod vx_probe {
    use super::*;
    use crate::bgp::{self, Attribute, Family, Ipv4Net, Nexthop, Nlri, PathNlri, Update};
    use std::net::{IpAddr, Ipv4Addr};
    use std::sync::Arc;
    use tokio_util::codec::Encoder;
    #[test]
    fn probe_multi_frame() {
        let entries: Vec<PathNlri> = (0..3000u32).map(|i| PathNlri { path_id: 0, nlri: Nlri::V4(Ipv4Net { addr: Ipv4Addr::from(0x0a000000 + (i << 8)), mask: 24 }) }).collect();
        let upd = bgp::Message::Update(Update::Reach { family: Family::IPV4, entries, nexthop: Some(Nexthop::V4(Ipv4Addr::new(192,168,0,1))),
            attr: Arc::new(vec![Attribute::new_with_value(Attribute::ORIGIN, 0).unwrap(), Attribute::new_with_bin(Attribute::AS_PATH, vec![2,1,0,0,0xfd,0xe9]).unwrap()]) });
        let msg = Message::RouteMonitoring { header: PerPeerHeader::new(0, 65002, Ipv4Addr::new(10,0,0,2), 0, IpAddr::V4(Ipv4Addr::new(192,168,0,1)), 0), update: upd, addpath: false };
        let mut c = BmpCodec::new(); let mut buf = bytes::BytesMut::new();
        c.encode(&msg, &mut buf).unwrap();
        let total = u32::from_be_bytes([buf[1],buf[2],buf[3],buf[4]]) as usize;
        assert_eq!(total, buf.len());
        // walk embedded BGP frames after the 6-byte common header and the 42-byte per-peer header
        let mut pos = 48; let mut frames = 0;
        while pos < buf.len() { let l = u16::from_be_bytes([buf[pos+16], buf[pos+17]]) as usize; frames += 1; pos += l; }
        println!("record bytes {} embedded BGP frames {}", buf.len(), frames);
        assert_eq!(frames, 1, "one Route Monitoring message must carry one BGP UPDATE (RFC 7854 4.6)");
    }
}
