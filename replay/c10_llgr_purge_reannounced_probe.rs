// Replay for finding F-C10-4 (property C10: "Routes re-announced on the new session are never removed by the stale purge").
// NOT found by a failed obligation: Table::drop_llgr_stale is a note-T function (hashbrown retain with captured &mut state);
// observation of a seeding sub-agent (round 6), confirmed with this test.
//
// Paste into `mod tests` of table/src/lib.rs and run
//   cargo test -p rustybgp-table --offline c10_llgr_purge
//
// drop_llgr_stale() selected the paths to purge with RibEntry::is_llgr_stale() — the session's LLGR-stale mark OR the
// LLGR_STALE community in the attributes — so a route re-announced on the new session that carries that community
// (legitimately: propagated from another helper) was purged at End-of-RIB.

    #[test]
    fn c10_llgr_purge_keeps_route_reannounced_with_llgr_stale_community() {
        // The peer's session dropped into its LLGR period; it reconnects (a new Source for the same address) and re-announces
        // 10.0.0.0/24 — carrying the LLGR_STALE community (ffff:0006) it received from another helper, which is legitimate
        // (RFC 9494 §4.3).  The End-of-RIB purge of the LLGR-stale routes must leave the re-announced route alone.
        let mut rt = Table::new(0);
        let net = nlri(10, 0, 0, 0, 24);
        let old = source(1, 65001, 65000, 1);
        rt.insert(old.clone(), Family::IPV4, net.clone(), 0, nh(), empty_attrs(), None, false, false, None, 0u32);
        rt.restale_llgr(old.remote_addr, Family::IPV4);
        let new = source(1, 65001, 65000, 1);
        let attrs = Arc::new(vec![
            packet::Attribute::new_with_bin(packet::Attribute::COMMUNITY, vec![0xff, 0xff, 0x00, 0x06]).unwrap(),
        ]);
        rt.insert(new.clone(), Family::IPV4, net.clone(), 0, nh(), attrs, None, false, false, None, 0u32);
        assert_eq!(flat_best(&rt, &Family::IPV4).len(), 1);
        let _ = rt.drop_llgr_stale(new.remote_addr, Family::IPV4, None);
        assert_eq!(
            flat_best(&rt, &Family::IPV4).len(),
            1,
            "the route re-announced on the new session was removed by the LLGR-stale purge"
        );
    }
