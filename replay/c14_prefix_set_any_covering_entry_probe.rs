// Replay for finding F-C14-1 (property C14, obligation C14.prefix_set_matches_iff_some_entry_covers_and_length_in_range
// of Condition::evalute, unit table_policy).
//
// Paste into the `mod tests` of table/src/policy.rs (it uses that module's helpers `import_source`
// and `apply_import`) and run `cargo test -p rustybgp-table --offline c14_prefix_set`.
//
// Property text: "prefix sets match a route when a set entry covers the route's prefix and the
// route's length lies in the entry's range".  Before the fix the condition looked only at the
// LONGEST covering entry of the route's address, so
//   (a) {10.0.0.0/8 [8..32], 10.1.0.0/16 [16..16]} did not match 10.1.2.0/24 although 10.0.0.0/8 covers
//       it and 24 lies in [8..32];
//   (b) {10.1.2.0/25 [8..32]} matched 10.1.2.0/24 although a /25 does not cover a /24.

#[test]
fn c14_prefix_set_any_covering_entry() {
    fn table(prefixes: Vec<PrefixConfig>) -> Arc<PolicyAssignment> {
        let mut ptable = PolicyTable::new();
        ptable
            .add_defined_set(DefinedSetConfig::Prefix {
                name: "ps".to_string(),
                prefixes,
            })
            .unwrap();
        ptable
            .add_statement(
                "st1",
                vec![ConditionConfig::PrefixSet("ps".to_string(), MatchOption::Any)],
                Some(Disposition::Reject),
                Actions::default(),
            )
            .unwrap();
        ptable.add_policy("p1", vec!["st1".to_string()]).unwrap();
        let (_, assignment) = ptable
            .add_assignment(
                "global",
                PolicyDirection::Import,
                Disposition::Accept,
                vec!["p1".to_string()],
            )
            .unwrap();
        assignment
    }
    let src = import_source(1);
    let net: packet::Nlri = "10.1.2.0/24".parse().unwrap();
    let attr = Arc::new(vec![]);

    // (a) a shorter covering entry whose range holds the route's length must match
    let a = table(vec![
        PrefixConfig {
            ip_prefix: "10.0.0.0/8".to_string(),
            mask_length_min: 8,
            mask_length_max: 32,
        },
        PrefixConfig {
            ip_prefix: "10.1.0.0/16".to_string(),
            mask_length_min: 16,
            mask_length_max: 16,
        },
    ]);
    let mut nh = Some(bgp::Nexthop::V4(Ipv4Addr::new(10, 0, 0, 1)));
    let (filtered, _) = apply_import(&a, None, &src, &net, &attr, &mut nh);
    assert!(filtered, "10.0.0.0/8 [8..32] covers 10.1.2.0/24");

    // (b) an entry longer than the route does not cover it
    let b = table(vec![PrefixConfig {
        ip_prefix: "10.1.2.0/25".to_string(),
        mask_length_min: 8,
        mask_length_max: 32,
    }]);
    let mut nh = Some(bgp::Nexthop::V4(Ipv4Addr::new(10, 0, 0, 1)));
    let (filtered, _) = apply_import(&b, None, &src, &net, &attr, &mut nh);
    assert!(!filtered, "10.1.2.0/25 does not cover 10.1.2.0/24");
}
