// Replay for finding F-C02-6 (property C02: "with the EVPN MAC-mobility sequence number ahead of everything for type-2
// routes ... the outcome depends only on the current set of paths, not on the order in which they arrived or were
// re-marked stale").  NOT found by a failed obligation (Table::restale / restale_llgr are outside the contract
// machinery, DESIGN.md note T): observation of a seeding sub-agent, confirmed with this test.
//
// Paste into `mod tests` of table/src/lib.rs (next to evpn_type2_higher_mac_mobility_seq_wins) and run
//   cargo test -p rustybgp-table --offline c02_restale_keeps
//
// Table::insert ranks an EVPN type-2 path with evpn_type2_cmp; restale() / restale_llgr() re-sorted the destination with
// RibEntry's standard Ord: after an unrelated peer went stale the best path flipped to the lower sequence number.

    #[test]
    fn c02_restale_keeps_mac_mobility_ahead_of_everything() {
        // EVPN type-2 route: src1 carries the lower MAC-mobility sequence number, src2 the higher one — src2 is the
        // best path whatever the router-ids say.  src3 (no mobility community, ranked last) then enters graceful restart.
        let src1 = source(1, 65001, 65000, 1);
        let src2 = source(2, 65002, 65000, 2);
        let src3 = source(3, 65003, 65000, 3);
        let net = evpn_type2_nlri(0);
        let mut rt = Table::new(0);
        evpn_insert(&mut rt, &src1, &net, attrs_with_mac_mobility(1));
        evpn_insert(&mut rt, &src2, &net, attrs_with_mac_mobility(5));
        evpn_insert(&mut rt, &src3, &net, empty_attrs());
        let best = |rt: &Table| {
            let dests: Vec<_> = rt
                .destinations(TableQuery::Global, Family::L2VPN_EVPN, vec![], false)
                .collect();
            dests[0].paths[0].source.remote_addr
        };
        assert_eq!(best(&rt), src2.remote_addr);
        let changes = rt.restale(src3.remote_addr, Family::L2VPN_EVPN);
        assert_eq!(
            best(&rt),
            src2.remote_addr,
            "the set of paths is the same, only src3 went stale: the higher sequence number must still win"
        );
        assert!(changes.iter().all(|c| !c.best_changed));
    }
