// Probe for finding F-C03-4 (append to packet/src/vpn.rs of a scratch copy and run
//   cargo test -p rustybgp-packet --offline probe_vpnv4_eight_labels):
// VpnV4Nlri::decode computes `label_bits = (labels.encoded_len() * 8) as u8` and then `label_bits + VPN_RD_BITS` in u8.
// The label stack is read until a bottom-of-stack bit, however long: with eight labels label_bits is 192 and
// 192 + 64 overflows u8 — a panic ('attempt to add with overflow') in a debug build on bytes received from a peer;
// in a release build the sum wraps to 0, the length check passes and `total_bits - label_bits - 64` wraps as well.
#[cfg(test)]
mod vx_probe_vpn {
    use super::*;
    use std::io::Cursor;
    #[test]
    fn probe_vpnv4_eight_labels() {
        let mut nlri = vec![255u8];                       // total bit length
        for i in 0..8u8 { nlri.extend_from_slice(&[0, 0, if i == 7 { 0x11 } else { 0x10 }]); }   // 8 labels, BoS on the last
        nlri.extend_from_slice(&[0, 0, 0xfd, 0xe9, 0, 0, 0, 1]);   // RD
        nlri.extend_from_slice(&[10, 0, 0, 0]);
        let len = nlri.len();
        let r = VpnV4Nlri::decode(&mut Cursor::new(&nlri), len);
        assert!(r.is_err(), "a label stack longer than the NLRI's bit length must be rejected, not mis-parsed");
    }
}
