// Probe for finding F-C04-1 (append to packet/src/bgp.rs of a scratch copy and run
//   cargo test -p rustybgp-packet --offline probe_vpnv6_frames_respect_max_len -- --nocapture):
// mp_reach_encode reserves 1 + 16 (+4) bytes per NLRI when it decides whether one more entry fits the frame, but a
// VPNv6 NLRI with a /128 prefix is 1 + 3 + 8 + 16 = 28 bytes, so the last entry can push the frame past 4096.
#[cfg(test)]
mod vx_probe_c04 {
    use super::*;
    use crate::mpls::{MplsLabel, MplsLabelStack};
    use crate::vpn::VpnV6Nlri;
    use crate::rd::RouteDistinguisher;
    #[test]
    fn probe_vpnv6_frames_respect_max_len() {
        let caps = vec![Capability::MultiProtocol(Family::IPV6_VPN)];
        let mut codec = PeerCodec::negotiate(&caps, &caps);
        let rd = RouteDistinguisher::TwoOctetAs { admin: 65001, assigned: 1 };
        let entries: Vec<PathNlri> = (0..400u32).map(|i| PathNlri::new(Nlri::VpnV6(VpnV6Nlri {
            labels: MplsLabelStack::new(vec![MplsLabel::new(200)]), rd: rd.clone(),
            prefix: Ipv6Net { addr: std::net::Ipv6Addr::from(0x2001_0db8_0000_0000_0000_0000_0000_0000u128 + i as u128), mask: 128 },
        }))).collect();
        let msg = Message::Update(Update::Reach { family: Family::IPV6_VPN, entries, nexthop: Some(Nexthop::V6("2001:db8::1".parse().unwrap())),
            attr: Arc::new(vec![Attribute::new_with_value(Attribute::ORIGIN, 0).unwrap(),
                                Attribute::new_with_bin(Attribute::AS_PATH, vec![Attribute::AS_PATH_TYPE_SEQ, 1, 0, 0, 0xFD, 0xEA]).unwrap()]) });
        let mut buf = bytes::BytesMut::new();
        codec.encode_to(&msg, &mut buf).unwrap();
        let mut pos = 0; let mut worst = 0usize;
        while pos < buf.len() { let l = u16::from_be_bytes([buf[pos + 16], buf[pos + 17]]) as usize; worst = worst.max(l); pos += l; }
        println!("largest frame {} bytes (limit {})", worst, codec.max_message_length());
        assert!(worst <= codec.max_message_length());
    }
}
