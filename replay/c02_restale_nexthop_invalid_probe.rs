// Replay for finding F-C02-5 (property C02: "Paths rejected by import policy or with an unreachable next hop are never
// selected").  NOT found by a failed obligation: Table::restale / restale_llgr iterate a hashbrown map by `iter_mut`
// and are outside what the contract machinery reaches (DESIGN.md note T); the defect was noticed by a seeding
// sub-agent reading the code and confirmed with this test.
//
// Paste into `mod tests` of table/src/lib.rs and run
//   cargo test -p rustybgp-table --offline c02_restale
//
// restale() / restale_llgr() built NlriChange::current_paths with `.filter(|e| !e.is_filtered())` where every other
// site takes Destination::unfiltered_iter() (not filtered AND next hop valid): after peer b entered graceful restart the
// change reported a — whose next hop is unreachable — as the new best path (10.0.0.1 instead of 10.0.0.3).

    #[test]
    fn c02_restale_reports_nexthop_invalid_path_as_best() {
        // a: ranked first by router-id but its next hop is unreachable; b, c: equal, b wins by router-id until it goes stale
        let mut rt = Table::new(0);
        let net = nlri(10, 0, 0, 0, 24);
        let a = source(1, 65001, 65000, 1);
        let b = source(2, 65002, 65000, 2);
        let c = source(3, 65003, 65000, 3);
        for (s, invalid) in [(&a, true), (&b, false), (&c, false)] {
            rt.insert(
                s.clone(),
                Family::IPV4,
                net.clone(),
                0,
                nh(),
                attrs_with_origin(0),
                None,
                false,
                invalid,
                None,
                0u32,
            );
        }
        let best = |rt: &Table| flat_best(rt, &Family::IPV4)[0].1.source.remote_addr;
        assert_eq!(best(&rt), b.remote_addr, "a has no usable next hop, b is the best");

        // b enters graceful restart: c (fresh) now beats b (stale); a still has no usable next hop
        let changes = rt.restale(b.remote_addr, Family::IPV4);
        assert_eq!(changes.len(), 1);
        assert!(changes[0].best_changed);
        assert_eq!(
            changes[0].new_best().unwrap().source.remote_addr,
            c.remote_addr,
            "restale: the new best must be c, not the path whose next hop is unreachable"
        );
    }

    #[test]
    fn c02_restale_llgr_reports_nexthop_invalid_path_as_best() {
        let mut rt = Table::new(0);
        let net = nlri(10, 0, 0, 0, 24);
        let a = source(1, 65001, 65000, 1);
        let b = source(2, 65002, 65000, 2);
        let c = source(3, 65003, 65000, 3);
        for (s, invalid) in [(&a, true), (&b, false), (&c, false)] {
            rt.insert(
                s.clone(),
                Family::IPV4,
                net.clone(),
                0,
                nh(),
                attrs_with_origin(0),
                None,
                false,
                invalid,
                None,
                0u32,
            );
        }
        let changes = rt.restale_llgr(b.remote_addr, Family::IPV4);
        assert_eq!(changes.len(), 1);
        assert!(changes[0].best_changed);
        assert_eq!(
            changes[0].new_best().unwrap().source.remote_addr,
            c.remote_addr,
            "restale_llgr: the new best must be c, not the path whose next hop is unreachable"
        );
    }
