// Replay for known finding F-C14-4 (property C14, obligation C14.cover.as_path_set_regex_members_are_evaluated).
//
// Paste into the `mod tests` of table/src/policy.rs and run
//   cargo test -p rustybgp-table --offline c14_as_path_regex_member
//
// An as-path set member that is not one of the eight single-AS shapes (`^65001_`, `_65001$`, `_65001-65010_`, ...) is
// compiled to a Regex by add_defined_set and stored in AsPathSet::sets — and Condition::evalute never looks at it:
// the set below is accepted, the route's AS path is `65001 65002`, and the ANY condition does not hold.

#[test]
fn c14_as_path_regex_member() {
    let mut ptable = PolicyTable::new();
    ptable
        .add_defined_set(DefinedSetConfig::AsPath {
            name: "as".to_string(),
            patterns: vec!["_65001_65002_".to_string()],
        })
        .unwrap();
    ptable
        .add_statement(
            "st1",
            vec![ConditionConfig::AsPathSet("as".to_string(), MatchOption::Any)],
            Some(Disposition::Reject),
            Actions::default(),
        )
        .unwrap();
    ptable.add_policy("p1", vec!["st1".to_string()]).unwrap();
    let (_, assignment) = ptable
        .add_assignment(
            "global",
            PolicyDirection::Import,
            Disposition::Accept,
            vec!["p1".to_string()],
        )
        .unwrap();
    let src = import_source(1);
    let net: packet::Nlri = "10.1.2.0/24".parse().unwrap();
    // AS_SEQUENCE 65001 65002
    let path = packet::Attribute::new_with_bin(
        packet::Attribute::AS_PATH,
        vec![2, 2, 0, 0, 0xfd, 0xe9, 0, 0, 0xfd, 0xea],
    )
    .unwrap();
    let attr = Arc::new(vec![path]);
    let mut nh = Some(bgp::Nexthop::V4(Ipv4Addr::new(10, 0, 0, 1)));
    let (filtered, _) = apply_import(&assignment, None, &src, &net, &attr, &mut nh);
    assert!(filtered, "the path `65001 65002` contains `_65001_65002_`");
}
