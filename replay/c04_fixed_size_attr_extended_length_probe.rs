// Replay for finding F-C04-4 (property C04, obligation "C04.attribute_length_field_width_matches_the_extended_length_bit" in
// Attribute::encode, unit packet_aspath).
//
// Paste into `mod update_tests` of packet/src/bgp.rs (next to raw_update_with_attrs / base_attrs_without_origin) and run
//   cargo test -p rustybgp-packet --offline c04_fixed_size
//
// parse_message keeps an attribute's flags as received, Extended Length bit included.  Attribute::encode wrote ORIGIN, MED,
// LOCAL_PREF and ORIGINATOR_ID with those flags and a ONE-octet length: an ORIGIN received as `50 01 00 01 00` went out as
// `50 01 01 00`, which the peer reads as "length 0x0100" — truncated attribute block, missing ORIGIN, prefixes withdrawn.

    #[test]
    fn c04_fixed_size_attribute_received_with_extended_length_reencodes_consistently() {
        // ORIGIN received in its extended-length form (flags 0x50, two-octet length 0x0001): legal on the wire, the flags
        // are kept as received.  Re-advertised, the attribute must come out with a length field as wide as its flags say.
        let mut attr_bytes = Vec::new();
        attr_bytes.extend_from_slice(&[0x50, 0x01, 0x00, 0x01, 0x00]);
        attr_bytes.extend_from_slice(&base_attrs_without_origin());
        let buf = raw_update_with_attrs(&attr_bytes);
        let parsed = ipv4_codec().parse_message(&buf).expect("parse must not fail");
        let msgs: Vec<Message> = validate_message(parsed, false).unwrap().collect();
        assert_eq!(msgs.len(), 1);
        assert!(matches!(&msgs[0], Message::Update(Update::Reach { .. })), "a clean UPDATE keeps its route");
        // send it on and let the peer decode it
        let mut out = Vec::new();
        ipv4_codec().encode_to(&msgs[0], &mut out).unwrap();
        let reparsed = ipv4_codec().parse_message(&out).expect("the peer must be able to parse what we encode");
        match reparsed {
            ParsedMessage::Update(ParsedUpdate::Routes { error_attrs, reach, .. }) => {
                assert!(
                    error_attrs.is_empty(),
                    "the peer sees attribute errors in our own encoding: {:?}",
                    error_attrs.iter().map(|e| (e.attr_code, e.attr_flags)).collect::<Vec<_>>()
                );
                assert!(reach.is_some());
            }
            _ => panic!("expected Routes"),
        }
    }
