// Probe for finding F-C04-3 (append to packet/src/bgp.rs of a scratch copy and run
//   cargo test -p rustybgp-packet --offline probe_ipv4_withdraw_frames_respect_max_len -- --nocapture):
// the IPv4 withdrawn-routes loop of do_encode accepts an entry when 4096 > len + 5 but the 2-byte Total Path Attribute
// Length is written after the loop, so a withdraw whose prefixes add up to exactly 4074 bytes yields a 4097-byte frame.
#[cfg(test)]
mod vx_probe_c04b {
    use super::*;
    #[test]
    fn probe_ipv4_withdraw_frames_respect_max_len() {
        let mut codec = PeerCodec::new();
        // 813 /32 prefixes (5 bytes each) + one /24 (4 bytes) + one /32: 21 + 4065 + 4 = 4090, then one more 5-byte entry
        let mut entries: Vec<PathNlri> = (0..813u32).map(|i| PathNlri::new(Nlri::V4(Ipv4Net { addr: std::net::Ipv4Addr::from(0x0a000000 + i), mask: 32 }))).collect();
        entries.push(PathNlri::new(Nlri::V4(Ipv4Net { addr: std::net::Ipv4Addr::new(11, 0, 0, 0), mask: 24 })));
        entries.push(PathNlri::new(Nlri::V4(Ipv4Net { addr: std::net::Ipv4Addr::new(12, 0, 0, 1), mask: 32 })));
        entries.push(PathNlri::new(Nlri::V4(Ipv4Net { addr: std::net::Ipv4Addr::new(12, 0, 0, 2), mask: 32 })));
        let msg = Message::Update(Update::Unreach { family: Family::IPV4, entries });
        let mut buf = bytes::BytesMut::new();
        codec.encode_to(&msg, &mut buf).unwrap();
        let mut pos = 0; let mut worst = 0usize;
        while pos < buf.len() { let l = u16::from_be_bytes([buf[pos + 16], buf[pos + 17]]) as usize; worst = worst.max(l); pos += l; }
        println!("largest frame {} bytes (limit {})", worst, codec.max_message_length());
        assert!(worst <= codec.max_message_length());
    }
}
