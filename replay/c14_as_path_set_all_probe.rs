// Replay for finding F-C14-3 (property C14, obligation C14.as_path_set_any_all_invert of Condition::evalute).
//
// Paste into the `mod tests` of table/src/policy.rs and run
//   cargo test -p rustybgp-table --offline c14_as_path_set_all
//
// Before the fix an as-path set with the ALL option behaved like INVERT: false when every member matched,
// true when none did.

#[test]
fn c14_as_path_set_all() {
    fn table(patterns: Vec<&str>, opt: MatchOption) -> Arc<PolicyAssignment> {
        let mut ptable = PolicyTable::new();
        ptable
            .add_defined_set(DefinedSetConfig::AsPath {
                name: "as".to_string(),
                patterns: patterns.into_iter().map(|s| s.to_string()).collect(),
            })
            .unwrap();
        ptable
            .add_statement(
                "st1",
                vec![ConditionConfig::AsPathSet("as".to_string(), opt)],
                Some(Disposition::Reject),
                Actions::default(),
            )
            .unwrap();
        ptable.add_policy("p1", vec!["st1".to_string()]).unwrap();
        let (_, assignment) = ptable
            .add_assignment(
                "global",
                PolicyDirection::Import,
                Disposition::Accept,
                vec!["p1".to_string()],
            )
            .unwrap();
        assignment
    }
    let src = import_source(1);
    let net: packet::Nlri = "10.1.2.0/24".parse().unwrap();
    // AS_SEQUENCE 65001 65002
    let path = packet::Attribute::new_with_bin(
        packet::Attribute::AS_PATH,
        vec![2, 2, 0, 0, 0xfd, 0xe9, 0, 0, 0xfd, 0xea],
    )
    .unwrap();
    let attr = Arc::new(vec![path]);
    let mut nh = Some(bgp::Nexthop::V4(Ipv4Addr::new(10, 0, 0, 1)));
    let all = table(vec!["^65001_", "_65002$"], MatchOption::All);
    let (f, _) = apply_import(&all, None, &src, &net, &attr, &mut nh);
    assert!(f, "ALL holds when every member matches");
    let one = table(vec!["^65001_", "_65009$"], MatchOption::All);
    let (f, _) = apply_import(&one, None, &src, &net, &attr, &mut nh);
    assert!(!f, "ALL does not hold when one member does not match");
    let none = table(vec!["^65008_", "_65009$"], MatchOption::All);
    let (f, _) = apply_import(&none, None, &src, &net, &attr, &mut nh);
    assert!(!f, "ALL does not hold when no member matches");
}
