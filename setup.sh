#!/bin/bash
# Offline setup after a fresh restore: warm the dependency build caches the checks use.
# Nothing here decides anything; the checks rebuild the crates under verification from /repo on every run.
set -u
cd "$(dirname "$0")"
export CARGO_NET_OFFLINE=true
mkdir -p .cache
ws=/var/tmp/vx-setup-$$
rm -rf "$ws"; mkdir -p "$ws"
rsync -a --exclude /target --exclude .git /repo/ "$ws"/
# Verus lane: dependencies + workspace crates with the Verus toolchain (plain rustc through the wrapper)
( cd "$ws" && RUSTC_WORKSPACE_WRAPPER=/verif/bin/vx-rustc VX_TARGET_CRATE= CARGO_TARGET_DIR=/verif/.cache/vx-target \
    cargo +1.98.1 build -p rustybgpd --offline >/verif/.cache/setup-vx.log 2>&1 ) || { echo "setup: verus-lane dependency build failed (see .cache/setup-vx.log)"; tail -20 /verif/.cache/setup-vx.log; }
rm -rf "$ws"
echo "setup done"
