"""Kani lane (DESIGN.md §3.2): harnesses / function contracts compiled inside the real crates under cfg(kani).

run(prop, names, tier) -> {harnesses: [...], checker_cmds, trusted, solver_s}
Each harness result: {harness, target, status: ok|failed|undecided, complete, bounds, checks, failed_checks,
                      time_s, must_fail, playback}
"""
import fcntl
import os
import re
import resource
import shutil
import subprocess
import time

VERIF = os.path.dirname(os.path.dirname(os.path.abspath(__file__)))
REPO = os.environ.get("VX_REPO", "/repo")
WS = os.environ.get("KX_WS", "/var/tmp/kx-ws")
TARGET = os.path.join(VERIF, ".cache", "kani-target")

from kani_harnesses import HARNESSES  # noqa: E402


def _limits():
    # address-space cap for CBMC (no swap on this machine)
    gb = int(os.environ.get("KX_MEM_GB", "28"))
    resource.setrlimit(resource.RLIMIT_AS, (gb << 30, gb << 30))


def _run_group(cmd, cwd, env, timeout):
    """run cmd in its own process group; on timeout kill that group only (a system-wide `pkill cbmc` would also end
    the solvers of checks of other properties running in parallel and turn them into UNDECIDED)"""
    import signal
    p = subprocess.Popen(cmd, cwd=cwd, env=env, stdout=subprocess.PIPE, stderr=subprocess.PIPE, text=True,
                         preexec_fn=_limits, start_new_session=True)
    try:
        so, se = p.communicate(timeout=timeout)
        return (so or "") + "\n" + (se or ""), False
    except subprocess.TimeoutExpired:
        try:
            os.killpg(p.pid, signal.SIGKILL)
        except ProcessLookupError:
            pass
        so, se = p.communicate()
        return (so or "") + "\n" + (se or "") + "\nTIMEOUT", True


def parse_sections(out):
    """split cargo-kani output into per-harness sections"""
    parts = re.split(r"^Checking harness ", out, flags=re.M)
    res = {}
    for p in parts[1:]:
        name = p.split("...")[0].strip()
        res[name.split("::")[-1]] = p
    return res


def parse_harness(sec):
    r = {"checks": 0, "failed_checks": [], "covers": None, "status": "undecided", "reason": None, "time_s": None}
    m = re.search(r"\*\* (\d+) of (\d+) failed", sec)
    if m:
        r["checks"] = int(m.group(2))
    m = re.search(r"\*\* (\d+) of (\d+) cover properties satisfied", sec)
    if m:
        r["covers"] = (int(m.group(1)), int(m.group(2)))
    m = re.search(r"Verification Time: ([0-9.]+)s", sec)
    if m:
        r["time_s"] = float(m.group(1))
    for cm in re.finditer(r"Check \d+: ([^\n]+)\n\s+- Status: FAILURE\n\s+- Description: \"([^\n]*)\"\n\s+- Location: ([^\n]+)", sec):
        r["failed_checks"].append({"check": cm.group(1), "description": cm.group(2), "location": cm.group(3).strip(),
                                   "label": (re.match(r"(C\d\d[\w.\-]+)", cm.group(2)) or [None, None])[1] if re.match(r"(C\d\d[\w.\-]+)", cm.group(2)) else None})
    # "Failed Checks:" summary lines (terse)
    if not r["failed_checks"]:
        for cm in re.finditer(r"Failed Checks: ([^\n]+)\n\s*File: \"([^\"]+)\", line (\d+)", sec):
            d = cm.group(1)
            lab = re.match(r"(C\d\d[\w.\-]+)", d)
            r["failed_checks"].append({"check": "", "description": d, "location": f"{cm.group(2)}:{cm.group(3)}",
                                       "label": lab.group(1) if lab else None})
    if "VERIFICATION:- SUCCESSFUL" in sec:
        r["status"] = "ok"
    elif "VERIFICATION:- FAILED" in sec:
        r["status"] = "failed"
        if any("unwinding assertion" in f["description"] for f in r["failed_checks"]):
            only_unwind = all("unwinding assertion" in f["description"] or "unwind" in f["description"] for f in r["failed_checks"])
            if only_unwind:
                r["status"] = "undecided"
                r["reason"] = "unwinding assertion failed: bound too small for this code (not a verdict about the property)"
        if "CBMC failed" in sec or "out of memory" in sec.lower():
            r["status"] = "undecided"
            r["reason"] = "CBMC resource failure"
    else:
        r["reason"] = "no verdict in output (timeout / crash): " + sec[-300:].replace("\n", " ")
    return r


def run(prop, names, tier):
    t0 = time.time()
    os.makedirs(os.path.dirname(WS) or "/", exist_ok=True)
    lock = open(WS + ".lock", "w")
    fcntl.flock(lock, fcntl.LOCK_EX)
    results = []
    cmds = []
    trusted = ["Kani 0.68 / CBMC 6.11 bit-precise semantics of the MIR of the real functions; Kani's nightly toolchain vs the repository's rustc 1.95",
               "Kani models of std (Vec, slices, io::Cursor, byteorder) are the real library code compiled to goto; allocation never fails"]
    solver_s = 0.0
    try:
        os.makedirs(WS, exist_ok=True)
        subprocess.run(["rsync", "-a", "--delete", "--exclude", "/target", "--exclude", ".git", REPO + "/", WS + "/"], check=True)
        # group by package
        bypkg = {}
        for n in names:
            h = HARNESSES[n]
            if tier == "quick" and h.get("thorough_only"):
                continue
            bypkg.setdefault(h["pkg"], []).append(n)
        for pkg, hs in bypkg.items():
            for n in hs:
                h = HARNESSES[n]
                tmo = h.get("timeout", 900) * (2 if tier == "thorough" else 1)
                cmd = ["cargo", "kani", "-p", pkg, "-Z", "function-contracts", "-Z", "stubbing"] + h.get("args", []) + ["--harness", n]
                env = dict(os.environ)
                env["CARGO_NET_OFFLINE"] = "true"
                env["CARGO_TARGET_DIR"] = TARGET
                env.pop("RUSTFLAGS", None)
                cmds.append("CARGO_NET_OFFLINE=true " + " ".join(cmd) + f"  (cwd: scratch copy of /repo, timeout {tmo}s)")
                t1 = time.time()
                out, _timed_out = _run_group(cmd, WS, env, tmo)
                secs = parse_sections(out)
                sec = secs.get(n)
                row = {"harness": n, "target": h.get("target"), "complete": h.get("complete", False), "bounds": h.get("bounds"),
                       "must_fail": h.get("must_fail", False), "wall_s": round(time.time() - t1, 1)}
                if sec is None:
                    row.update({"status": "undecided", "reason": ("timeout after %ds" % tmo) if "TIMEOUT" in out else
                                ("harness did not run: " + out[-600:].replace("\n", " "))})
                else:
                    pr = parse_harness(sec)
                    row.update(pr)
                    solver_s += pr.get("time_s") or 0
                    if not h.get("must_fail"):
                        cv = pr.get("covers")
                        if pr["status"] == "ok" and (cv is None or cv[0] != cv[1] or cv[1] < 1):
                            row["status"] = "undecided"
                            row["reason"] = f"vacuity guard: cover properties satisfied {cv}"
                        for st in h.get("require_stubs", []):
                            if st not in out:
                                row["status"] = "undecided"
                                row["reason"] = f"expected stub line missing: {st}"
                    if row["status"] == "failed" and not h.get("must_fail"):
                        row["playback"] = playback(pkg, n, h, env)
                results.append(row)
    finally:
        fcntl.flock(lock, fcntl.LOCK_UN)
    return {"harnesses": results, "checker_cmds": cmds, "trusted": trusted, "solver_s": solver_s, "wall_s": time.time() - t0}


def playback(pkg, n, h, env):
    """concrete counterexample of a failed harness as a Rust unit test (Kani concrete playback)"""
    cmd = ["cargo", "kani", "-p", pkg, "-Z", "function-contracts", "-Z", "stubbing", "-Z", "concrete-playback",
           "--concrete-playback=print"] + h.get("args", []) + ["--harness", n]
    try:
        out, _ = _run_group(cmd, WS, env, h.get("timeout", 900))
        m = re.search(r"Concrete playback unit test for `[^`]+`:\n```\n(.*?)```", out, flags=re.S)
        if m:
            return m.group(1)
        m = re.search(r"(#\[test\]\s*fn kani_concrete_playback.*?\n\})", out, flags=re.S)
        return m.group(1) if m else None
    except Exception:
        return None
