"""Registry of Kani harnesses (files in /verif/kani, compiled inside the real crates under cfg(kani)).

complete=True  : loop-free (or loops closed by fixed widths with unwinding assertions on) over full-domain symbolic
                 inputs — counted as discharged obligations.
complete=False : bounded stand-in; the bound is stated and the result is never counted as proved.
"""
HARNESSES = {
    # ---------------------------------------------------------------- C03
    "bfd_decode_total_and_exact": {
        "pkg": "rustybgp-packet", "target": "bfd::Message::decode", "complete": True,
        "bounds": "datagram length 0..=300 (every length a u8 length field can and cannot describe), all bytes symbolic; decode is loop-free and reads no byte beyond offset 23",
        "timeout": 900,
    },
    "bfd_decode_mustfail": {"pkg": "rustybgp-packet", "target": "bfd::Message::decode", "must_fail": True, "timeout": 600},
    "rtr_frame_length_contract": {
        "pkg": "rustybgp-packet", "target": "rpki::Message::frame_length", "complete": True,
        "bounds": "buffer length 0..=64, all bytes symbolic (length field over its full u32 range); loop-free; only bytes 4..8 and the buffer length are inspected",
        "timeout": 600, "require_stubs": ["Stub: alloc :: fmt :: format"],
    },
    "rtr_from_bytes_total": {
        "pkg": "rustybgp-packet", "target": "rpki::Message::from_bytes", "complete": False,
        "bounds": "complete frames of 8..=40 symbolic bytes (longest PDU parsed: 32-byte IPv6 Prefix), unwind 18",
        "timeout": 900, "require_stubs": ["Stub: alloc :: fmt :: format"],
    },
    "rtr_decode_framing": {
        "pkg": "rustybgp-packet", "target": "rpki::RtrCodec::decode (from_bytes replaced by 'any outcome')", "complete": False,
        "bounds": "buffers of 0..=24 symbolic bytes (up to three PDUs), unwind 5",
        "timeout": 900, "require_stubs": ["Stub: Message :: from_bytes", "Stub: alloc :: fmt :: format"],
    },
    "bgp_try_parse_framing": {
        "pkg": "rustybgp-packet", "target": "bgp::PeerCodec::try_parse (parse_message replaced by 'any outcome')", "complete": False,
        "bounds": "buffers of 0..=40 symbolic bytes; length field (full u16) and extended-message flag symbolic; loop-free",
        "timeout": 900, "require_stubs": ["Stub: PeerCodec :: parse_message"],
    },
    "c03_nlri_ipv4": {
        "pkg": "rustybgp-packet", "target": "bgp::PeerCodec::decode_nlri (IPv4 unicast arm, add-path on/off, reach/unreach)", "complete": False,
        "bounds": "buffers of 0..=12 symbolic bytes, unwind 14: no panic; a decoded entry consumes at least one byte; the reader stays inside the buffer",
        "timeout": 900, "thorough_only": True, "require_stubs": ["Stub: alloc :: fmt :: format"],
    },
    "c03_nlri_ipv6": {
        "pkg": "rustybgp-packet", "target": "bgp::PeerCodec::decode_nlri (IPv6 unicast arm, add-path on/off, reach/unreach)", "complete": False,
        "bounds": "buffers of 0..=24 symbolic bytes, unwind 26: no panic; a decoded entry consumes at least one byte; the reader stays inside the buffer",
        "timeout": 900, "thorough_only": True, "require_stubs": ["Stub: alloc :: fmt :: format"],
    },
    # ---------------------------------------------------------------- C04
    "c04_ipv4_entry_round_trip": {
        "pkg": "rustybgp-packet", "target": "bgp::Nlri::encode (IPv4) / bgp::PeerCodec::decode_nlri", "complete": True,
        "bounds": "none: every IPv4 address, prefix length 0..=32, ADD-PATH on/off, every path identifier; values 'obtained by decoding' (octets behind the prefix length are zero); loops bounded by the address width (unwind 6, unwinding assertions on)",
        "timeout": 600,
    },
    "c04_ipv6_entry_round_trip": {
        "pkg": "rustybgp-packet", "target": "bgp::Nlri::encode (IPv6) / bgp::PeerCodec::decode_nlri", "complete": True,
        "bounds": "none: every IPv6 address, prefix length 0..=128, ADD-PATH on/off, every path identifier; values 'obtained by decoding'; loops bounded by the address width (unwind 18, unwinding assertions on)",
        "timeout": 900, "thorough_only": True,
    },
    # ---------------------------------------------------------------- C05
    "c05_canonical_flags_table": {
        "pkg": "rustybgp-packet", "target": "bgp::Attribute::canonical_flags", "complete": True,
        "bounds": "all 256 attribute type codes; loop-free", "timeout": 600,
    },
    "c05_attr_decode_origin": {
        "pkg": "rustybgp-packet", "target": "bgp::Attribute::decode (ORIGIN)", "complete": False,
        "bounds": "attribute values of 0..=26 symbolic bytes, flags symbolic, four-octet-AS mode; unwind 28: accepted only if the length obeys the attribute's RFC rule, stored with the code and flags received, no panic",
        "timeout": 600,
    },
    "c05_attr_decode_med": {
        "pkg": "rustybgp-packet", "target": "bgp::Attribute::decode (MULTI_EXIT_DISC)", "complete": False,
        "bounds": "attribute values of 0..=26 symbolic bytes, flags symbolic, four-octet-AS mode; unwind 28: accepted only if the length obeys the attribute's RFC rule, stored with the code and flags received, no panic",
        "timeout": 600,
    },
    "c05_attr_decode_local_pref": {
        "pkg": "rustybgp-packet", "target": "bgp::Attribute::decode (LOCAL_PREF)", "complete": False,
        "bounds": "attribute values of 0..=26 symbolic bytes, flags symbolic, four-octet-AS mode; unwind 28: accepted only if the length obeys the attribute's RFC rule, stored with the code and flags received, no panic",
        "timeout": 600,
    },
    "c05_attr_decode_atomic_aggregate": {
        "pkg": "rustybgp-packet", "target": "bgp::Attribute::decode (ATOMIC_AGGREGATE)", "complete": False,
        "bounds": "attribute values of 0..=26 symbolic bytes, flags symbolic, four-octet-AS mode; unwind 28: accepted only if the length obeys the attribute's RFC rule, stored with the code and flags received, no panic",
        "timeout": 600,
    },
    "c05_attr_decode_aggregator": {
        "pkg": "rustybgp-packet", "target": "bgp::Attribute::decode (AGGREGATOR)", "complete": False,
        "bounds": "attribute values of 0..=26 symbolic bytes, flags symbolic, four-octet-AS mode; unwind 28: accepted only if the length obeys the attribute's RFC rule, stored with the code and flags received, no panic",
        "timeout": 600,
    },
    "c05_attr_decode_community": {
        "pkg": "rustybgp-packet", "target": "bgp::Attribute::decode (COMMUNITIES)", "complete": False,
        "bounds": "attribute values of 0..=26 symbolic bytes, flags symbolic, four-octet-AS mode; unwind 28: accepted only if the length obeys the attribute's RFC rule, stored with the code and flags received, no panic",
        "timeout": 600,
    },
    "c05_attr_decode_originator_id": {
        "pkg": "rustybgp-packet", "target": "bgp::Attribute::decode (ORIGINATOR_ID)", "complete": False,
        "bounds": "attribute values of 0..=26 symbolic bytes, flags symbolic, four-octet-AS mode; unwind 28: accepted only if the length obeys the attribute's RFC rule, stored with the code and flags received, no panic",
        "timeout": 600,
    },
    "c05_attr_decode_cluster_list": {
        "pkg": "rustybgp-packet", "target": "bgp::Attribute::decode (CLUSTER_LIST)", "complete": False,
        "bounds": "attribute values of 0..=26 symbolic bytes, flags symbolic, four-octet-AS mode; unwind 28: accepted only if the length obeys the attribute's RFC rule, stored with the code and flags received, no panic",
        "timeout": 600,
    },
    "c05_attr_decode_ext_community": {
        "pkg": "rustybgp-packet", "target": "bgp::Attribute::decode (EXTENDED COMMUNITIES)", "complete": False,
        "bounds": "attribute values of 0..=26 symbolic bytes, flags symbolic, four-octet-AS mode; unwind 28: accepted only if the length obeys the attribute's RFC rule, stored with the code and flags received, no panic",
        "timeout": 600,
    },
    "c05_attr_decode_as4_aggregator": {
        "pkg": "rustybgp-packet", "target": "bgp::Attribute::decode (AS4_AGGREGATOR)", "complete": False,
        "bounds": "attribute values of 0..=26 symbolic bytes, flags symbolic, four-octet-AS mode; unwind 28: accepted only if the length obeys the attribute's RFC rule, stored with the code and flags received, no panic",
        "timeout": 600,
    },
    "c05_attr_decode_large_community": {
        "pkg": "rustybgp-packet", "target": "bgp::Attribute::decode (LARGE_COMMUNITY)", "complete": False,
        "bounds": "attribute values of 0..=26 symbolic bytes, flags symbolic, four-octet-AS mode; unwind 28: accepted only if the length obeys the attribute's RFC rule, stored with the code and flags received, no panic",
        "timeout": 600,
    },
    "c05_attr_decode_as_path_len0": {
        "pkg": "rustybgp-packet", "target": "bgp::Attribute::decode (AS_PATH, four-octet mode)", "complete": False,
        "bounds": "attribute value of exactly 0 symbolic bytes, flags symbolic; unwind 16: accepted only if the value is whole segments of defined types, stored as received with the code and flags received, consumed whole, no panic",
        "timeout": 300,
    },
    "c05_attr_decode_as_path_len6": {
        "pkg": "rustybgp-packet", "target": "bgp::Attribute::decode (AS_PATH, four-octet mode)", "complete": False,
        "bounds": "attribute value of exactly 6 symbolic bytes, flags symbolic; unwind 16: accepted only if the value is whole segments of defined types, stored as received with the code and flags received, consumed whole, no panic",
        "timeout": 300,
    },
    "c05_attr_decode_as_path_len8": {
        "pkg": "rustybgp-packet", "target": "bgp::Attribute::decode (AS_PATH, four-octet mode)", "complete": False,
        "bounds": "attribute value of exactly 8 symbolic bytes, flags symbolic; unwind 16: accepted only if the value is whole segments of defined types, stored as received with the code and flags received, consumed whole, no panic",
        "timeout": 300,
    },
    "c05_attr_decode_as_path_len12": {
        "pkg": "rustybgp-packet", "target": "bgp::Attribute::decode (AS_PATH, four-octet mode)", "complete": False,
        "bounds": "attribute value of exactly 12 symbolic bytes, flags symbolic; unwind 16: accepted only if the value is whole segments of defined types, stored as received with the code and flags received, consumed whole, no panic",
        "timeout": 300,
    },
    "c05_attr_decode_as_path_len7": {
        "pkg": "rustybgp-packet", "target": "bgp::Attribute::decode (AS_PATH, four-octet mode)", "complete": False,
        "bounds": "attribute value of exactly 7 symbolic bytes (whole segments plus a stray octet at best): always rejected, no panic",
        "timeout": 300,
    },
    "c05_attr_decode_as4_path_len6": {
        "pkg": "rustybgp-packet", "target": "bgp::Attribute::decode (AS4_PATH)", "complete": False,
        "bounds": "attribute value of exactly 6 symbolic bytes, flags symbolic; unwind 16: accepted only if the value is at least one whole non-empty segment of a defined type, stored as received, consumed whole, no panic",
        "timeout": 300,
    },
    "c05_attr_decode_as4_path_len12": {
        "pkg": "rustybgp-packet", "target": "bgp::Attribute::decode (AS4_PATH)", "complete": False,
        "bounds": "attribute value of exactly 12 symbolic bytes, flags symbolic; unwind 16: accepted only if the value is at least one whole non-empty segment of a defined type, stored as received, consumed whole, no panic",
        "timeout": 300,
    },
    "c05_attr_decode_as4_path_len7": {
        "pkg": "rustybgp-packet", "target": "bgp::Attribute::decode (AS4_PATH)", "complete": False,
        "bounds": "attribute value of exactly 7 symbolic bytes: always rejected, no panic",
        "timeout": 300,
    },
    # ---------------------------------------------------------------- C06
    "c06_id_alloc_unique": {
        "pkg": "rustybgp-table", "target": "IdAllocator::alloc", "complete": False,
        "bounds": "<= 3 existing bitmap words (192 live ids) + the pushed one, every word over its full 64-bit domain, unwind 7", "timeout": 900,
    },
    "c06_id_dealloc_exact": {
        "pkg": "rustybgp-table", "target": "IdAllocator::dealloc", "complete": False,
        "bounds": "<= 4 bitmap words (256 live ids), every word over its full 64-bit domain, unwind 7", "timeout": 900,
    },
    "c06_id_alloc_mustfail": {"pkg": "rustybgp-table", "target": "IdAllocator::alloc", "must_fail": True, "timeout": 600},
    # ---------------------------------------------------------------- C16
    "c16_ipnet_contains_v4": {
        "pkg": "rustybgp-packet", "target": "bgp::IpNet::contains (IPv4)", "complete": True,
        "bounds": "every IPv4 prefix without host bits, mask 0..=32, every address (32+6+32 bits); the only loop runs mask/8 <= 4 times (unwind 6, unwinding assertions on)",
        "timeout": 900,
    },
    "c16_ipnet_contains_v6": {
        "pkg": "rustybgp-packet", "target": "bgp::IpNet::contains (IPv6)", "complete": True,
        "bounds": "every IPv6 prefix without host bits, mask 0..=128, every address; loop <= 16 iterations (unwind 18, unwinding assertions on)",
        "timeout": 1200,
    },
    # ---------------------------------------------------------------- C12
    "c12_covering_key_v4": {
        "pkg": "rustybgp-table", "target": "RpkiTable::covering_key (IPv4)", "complete": True,
        "bounds": "every 32-bit address and length 0..=32; loop of 4 iterations (unwind 6, unwinding assertions on)", "timeout": 600,
    },
    "c12_covering_key_v6": {
        "pkg": "rustybgp-table", "target": "RpkiTable::covering_key (IPv6)", "complete": True,
        "bounds": "every 128-bit address and length 0..=128; loop of 16 iterations (unwind 18, unwinding assertions on)", "timeout": 900,
    },
}
