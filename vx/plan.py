"""Which machinery decides which property (DESIGN.md §1)."""

COMMON_TRUSTED = [
    "Verus 0.2026.09.13 (VC generation, SMT encoding, Z3) and rustc 1.98.1 front end vs the repository's rustc 1.95: same source, different compiler",
    "machine integers are exact: Verus checks overflow/underflow/truncating casts as obligations",
    "vstd axioms for core/alloc (Vec, Option, slices, iterators map/collect/into_iter)",
    "generator rewrites R1/R3/R9/R10/R12/RC (logged per run under coverage.rewrites_applied) preserve semantics",
]

UNIT_TRUSTED = {
    "daemon_fsm": [
        "prelude daemon_fsm: external_type_specification of bgp::{Message,Open,Update}, Notification, Capability, Family, HoldTime, PeerCodec",
        "prelude daemon_fsm: assumed contracts HoldTime::{new,seconds,DISABLED}, PeerCodec::negotiate (uninterpreted), Clone of Capability/Message/Family/HoldTime returns an equal value, std::cmp::min, std::mem::take",
        "derive(PartialEq) on State and Role is structural equality (PartialEqSpecImpl)",
        "FnvHashMap: fnv builds valid hashers and Family obeys the key model (broadcast axioms)",
        "A-C07-1: the async driver (daemon/src/event/mod.rs) feeds PeerFsm::process under one mutex, with Input::Connected only for a new TCP connection, and acts on every output",
        "A-C08-1: driver timer semantics = last SetHoldTimer/CancelHoldTimer/SetKeepaliveTimer of an output list replaces the pending deadline (apply_outputs arms, unverified async code)",
        "A-C08-2: a timer input is delivered only if that timer was armed (timer_input_wf); configured hold time is 0 or 3..=65535 (config validation, unverified here); received OPEN carries HoldTime 0 or >=3 (HoldTime::new, parse_message)",
    ],
}

# minimum number of functions that must produce obligations / of must-fail twins that must run
FLOORS = {"daemon_fsm": 30}
TWIN_FLOORS = {"daemon_fsm": 8}

PLAN = {
    "C07": {"verus": ["daemon_fsm"], "level": "proof"},
    "C08": {"verus": ["daemon_fsm"], "level": "proof"},
}
