"""Which machinery decides which property (DESIGN.md §1)."""

COMMON_TRUSTED = [
    "Verus 0.2026.09.13 (VC generation, SMT encoding, Z3) and rustc 1.98.1 front end vs the repository's rustc 1.95: same source, different compiler",
    "machine integers are exact: Verus checks overflow/underflow/truncating casts as obligations",
    "vstd axioms for core/alloc (Vec, Option, slices, iterators map/collect/into_iter)",
    "generator rewrites R1/R3/R9/R10/R12/RC (logged per run under coverage.rewrites_applied) preserve semantics",
]

UNIT_TRUSTED = {
    "daemon_fsm": [
        "prelude daemon_fsm: external_type_specification of bgp::{Message,Open,Update}, Notification, Capability, Family, HoldTime, PeerCodec",
        "prelude daemon_fsm: assumed contracts HoldTime::{new,seconds,DISABLED}, PeerCodec::negotiate (uninterpreted), Clone of Capability/Message/Family/HoldTime returns an equal value, std::cmp::min, std::mem::take",
        "derive(PartialEq) on State and Role is structural equality (PartialEqSpecImpl)",
        "FnvHashMap: fnv builds valid hashers and Family obeys the key model (broadcast axioms)",
        "A-C07-1: the async driver (daemon/src/event/mod.rs) feeds PeerFsm::process under one mutex, with Input::Connected only for a new TCP connection, and acts on every output",
        "A-C08-1: driver timer semantics = last SetHoldTimer/CancelHoldTimer/SetKeepaliveTimer of an output list replaces the pending deadline (apply_outputs arms, unverified async code)",
        "A-C08-2: a timer input is delivered only if that timer was armed (timer_input_wf); configured hold time is 0 or 3..=65535 (config validation, unverified here); received OPEN carries HoldTime 0 or >=3 (HoldTime::new, parse_message)",
    ],
}

UNIT_TRUSTED["daemon_gr"] = [
    "prelude p_gr: std::mem::replace, Notification::is_hard_reset == (self is CeaseHardReset); R11 helpers (assumed std iterator algebra): vx_pair_keys_to_set, vx_vec_into_set, vx_set_into_vec; R12 helpers vx_filter_collect / vx_set_filter_collect (predicate closures verified at the call site)",
    "prelude p_bgp_types / p_std as for daemon_fsm; HashSet<Family, fnv> obeys vstd's hash-set model",
    "A-C10-1: the async driver (session_loop / apply_disconnect / timers in daemon/src/event/mod.rs) performs exactly the deletions and timer operations GrState outputs and feeds it every drop / establish / EOR / timer event; known false by inspection at two call sites (DESIGN.md §4 C10): families_to_drop_on_disconnect is evaluated before gr_on_disconnect decides, and apply_disconnect's non-GR branch cancels a pending restart timer after a failed reconnection attempt",
    "A-C10-2: redrop_consistent — a session that drops while families of an earlier cycle are still covered carries GR/LLGR parameters that include them",
    "Table::{drop_stale,restale,…} actually delete / mark the routes (note T, not under contract)",
]

UNIT_TRUSTED["daemon_peer_tx"] = [
    "prelude p_peer_tx: packet::Nlri / Attribute / Nexthop opaque, PathNlri transparent; derive(PartialEq) on Nlri is structural equality; (u32,u32) obeys the hash key model",
    "drain_messages: the two hash-map drains are outlined (R11, contracts assumed): `entries.extend(unreach.drain().map(..))` empties the map and appends one PathNlri per entry; the drain-and-group loop over `reach` (entry().or_default().push) empties the map and returns the entries grouped by (attributes, next hop), every entry in exactly its group; std::mem::take on a Vec returns it and leaves an empty one; Message::eor(f) = Update(EndOfRib(f)); bgp::Update mirrored transparently in this unit",
    "process_nlri_change (the diff of the exportable window against what was sent) is under contract in unit daemon_export (see its trusted base); NOT under contract: ExportMap's hashbrown internals (set model assumed), GroupedSink / AdjOutSink (other NlriSink implementations)",
    "A-C01-1: one serialised stream of NlriChange per session (shard locks, channels, select loop)",
    "A-C01-2: a queued announcement is cancelled only by the withdrawal of the same prefix (precondition of PendingTx::unreach)",
]

UNIT_TRUSTED["table_cmp"] = [
    "prelude p_table: packet::Attribute opaque with accessor contracts code()/value()/binary()/as_path_length() = uninterpreted spec functions (field reads of the packet crate; as_path_length is verified against the segment-level hop count in unit packet_aspath, same check run); packet::evpn::mac_mobility uninterpreted; Ordering::{reverse,then_with,eq}, <bool as Ord>::cmp, Arc::as_ref; associated constants of packet::Attribute (R10: values checked at compile time)",
    "Source is kept outside Verus (atomics): src_role / src_router_id / src_stale / src_llgr_stale are uninterpreted reads (R13 accessor shims, Source::is_stale / is_llgr_stale assumed to return the flag: atomics read as plain fields)",
    "has_llgr_stale_community (chunks / try_into: outside the dialect) assumed to be a function of the attribute list",
    "A-C02-1 (type invariant of RibEntry / precondition of ecmp_paths): stored paths carry wire-valid attributes (LOCAL_PREF, ORIGIN, ORIGINATOR_ID hold a value) — guaranteed by Attribute::decode for wire input, NOT for gRPC-injected paths (C17, not claimed)",
    "NOT under contract (note T): that Table::insert / restale* / update_nexthop_validity keep each destination's list sorted by this comparator and exclude filtered / next-hop-invalid entries; hashbrown-heavy mutators are outside both tools",
]

UNIT_TRUSTED["packet_validate"] = [
    "prelude p_packet: ParsedUpdate / ReachNlri / UnreachNlri / AttributeError / Message / Update mirrored transparently (Verus checks the mirror against the real definitions), Attribute / Family / Nexthop / PathNlri / Open / Notification opaque; Attribute::code uninterpreted; derive(PartialEq) on Family structural",
    "Attribute::canonical_flags == spec_canonical: proved by the Kani harness c05_canonical_flags_table over all 256 codes (same check run)",
    "R11 helper vx_chain_opts (Option::into_iter().chain(Option)), R12 helper vx_filter_collect (assumed std iterator semantics; predicate closures verified at the call site), R15 matches!-on-constants rewritten to == (u8 / derived PartialEq)",
    "NOT covered: the parse side — that parse_message records every flag mismatch / decode failure / unknown well-known attribute in error_attrs with its code and resets the session only for unparsable NLRI (parse_message is not under contract yet)",
]

UNIT_TRUSTED["packet_parse"] = [
    "prelude p_packet_parse: io::Cursor modelled as (buffer, position) with assumed contracts for new/position/set_position/get_ref; byteorder reads as R11 helpers (`requires pos + k <= len` turns every `.unwrap()` of the real code into an obligation); R11b shims for Capability::decode / Attribute::decode (they take `&mut dyn io::Read`): assumed to leave the buffer alone, never move the cursor backwards or past the end, return the attribute with the code / flags given, and a byte-string body for MP_REACH / MP_UNREACH; and (for the attribute-walk contract) Attribute::decode's outcome is ASSUMED to be a function attr_decodes(code, flags, the `len` value octets, two_byte_as) and an accepted value to be consumed whole (cursor advanced by exactly `len`: cross-checked per attribute type by the bounded Kani decode harnesses, clause C05.decode.accepted_value_is_consumed_whole), MP_REACH / MP_UNREACH stored as the value received; Family(v) as an uninterpreted family_of(v)",
    "trusted (external_body, contracts assumed): PeerCodec::decode_nlri_list (total; its outcome is a function nlri_list_ok of its four arguments — it is an associated function without state), PeerCodec::reconcile_as4 (total, keeps stored attributes well-flagged), Nexthop::from_bytes, Notification::from_notification, Attribute::{binary,new_opaque}, HoldTime::new, Ipv4Addr::{from(u32),is_unspecified,is_broadcast,is_multicast} as functions of the 32 bits, <[T]>::to_vec, Option::{is_none_or,filter}, bool::then_some",
    "precondition buf.len() <= 65535: established by PeerCodec::try_parse (bounded Kani harness bgp_try_parse_framing), the only caller",
    "NOT covered: the per-family NLRI decoders behind decode_nlri_list and the attribute / capability body decoders (leaf byte-level code)",
]

UNIT_TRUSTED["table_rpki"] = [
    "patricia_tree::PatriciaMap modelled as a finite map from keys to VRP lists (pm_view, uninterpreted); R11b shims vx_pm_get / vx_pm_is_empty assumed to be exact lookups / emptiness of that map",
    "prelude p_table / p_table_rpki: packet::Nlri mirrored transparently (payload types opaque), Ipv4Addr/Ipv6Addr::octets as uninterpreted octet sequences of length 4 / 16, Attribute::{code,as_path_origin} uninterpreted, IpNet opaque with Clone = equal value, Source kept outside Verus (src_local_asn accessor shim)",
    "RpkiTable::key_to_addr (clone_from_slice / expect / unreachable!) trusted: total for keys produced by covering_key (4 or 16 octets + length)",
    "'covers' is defined on octets (covering_key_spec); the Kani harnesses c12_covering_key_v4 / _v6 prove the real covering_key equal to 'address with the low (width - len) bits cleared' for every address and length (complete)",
    "RpkiTable::insert / remove: the nested `get_mut`s into FnvHashMap<Family, PatriciaMap<..>> are R11b helpers returning `&mut` with assumed frame contracts (only that family's trie / that key's list changes: stated over final(..) of the returned reference), PatriciaMap::{insert,remove} as map updates, Vec::retain keeps exactly the elements satisfying the (verified) predicate; A-C12-2: `Arc::ptr_eq` on two cache handles coincides with equality of the cache address (one Arc per RTR session, distinct caches have distinct addresses); rpki_wf: both families have a trie (RpkiTable::new); #[verifier::loop_isolation(false)] on both",
    "NOT under contract: RpkiTable::{drop_source,state,iter} (values_mut / iter_mut over the tries, foreign iterators): per-cache reset is not covered; stored keys with host bits set (a cache sending non-canonical prefixes) are never matched — by construction of the lookup, and consistent with the spec",
]

UNIT_TRUSTED["table_policy"] = [
    "packet::bgp::AsPathIter modelled as the sequence of segments it yields (aspath_segments, uninterpreted; a segment may be empty); R11 helpers vx_aspath_segments / vx_aspath_next / vx_aspath_first; precondition attr_binary(attr) is Some (AsPathIter::new unwraps it)",
    "regex::Regex::is_match is an uninterpreted function of pattern and text; R12 helpers vx_any / vx_all / vx_find (verified loops); VxIter: `X.iter()` rewritten to a wrapper value whose `.all` / `.any` methods are those verified loops (the method named in the code decides which contract applies)",
    "attrs_wf — precondition of Condition::evalute, Statement::apply, Policy::apply, PolicyAssignment::apply and preserved by them: an attribute with type code 2 holds a byte string (true of what Attribute::decode and the API conversion build; as_path_* and AsPathIter::new unwrap it)",
    "Condition::evalute: ip_network_table_deps_treebitmap::IpLookupTable modelled as a finite map (network address, length) -> value (lt4_view / lt6_view, uninterpreted); R11 helpers vx_lt4/6_matches_any (assumed: `matches(ip)` yields exactly the stored prefixes containing ip) and vx_lt4/6_longest_match (assumed: the longest of them; only used if the code calls it); 'contains' is defined on address octets (lt_masked_octet); packet::IpNet::contains uninterpreted here (decided by the C16 Kani harnesses); communities_from_attr / ext_ / large_ and the text forms of community values (`format!`) uninterpreted (vx_comm_strs / vx_ecomm_strs / vx_lcomm_strs outlined verbatim); the RPKI, route-type, afi-safi-in and next-hop arms are outlined verbatim (R11) as uninterpreted functions of what they read (Source identity is part of a Source's abstract value) — they are outside the property's text; derive(PartialEq) on MatchOption structural; #[verifier::loop_isolation(false)]",
    "Statement::apply: Arc::make_mut as a `&mut` into the vector the Arc owns afterwards (vx_arc_make_mut; copy-on-write invisible, Arc = value); Vec::retain / into_iter().filter().collect() keep exactly the elements satisfying the (verified) predicate, in order; Vec::contains / clone / extend_from_slice on u32, [u8; 8], (u32, u32, u32) structural (vx_contains / vx_vec_clone / vx_vec_extend); Option::copied, i64::saturating_add, i64::clamp as their std definitions; Attribute::new_with_value returns a value attribute with that code for codes 1, 4, 5 (canonical-flags table: Kani harness c05_canonical_flags_table); communities_to_attr / ext_ / large_ and Attribute::as_path_prepend / as_path_prepend_confed / empty_as_path uninterpreted with their type codes (the byte-level prepend functions are verified in unit packet_aspath); IpAddr and bgp::Nexthop mirrored transparently; rlimit(200) (about 20 s)",
    "PolicyTable: FnvHashMap::values() over the statements / policies outlined as vectors in an unspecified order (vx_stmt_values / vx_policy_values, assumed: exactly the stored values); String / str comparisons through references outlined (vx_string_eq, vx_string_eq_str, vx_str_eq: equality of the character sequences); Arc<str>::as_ref, Arc::clone = same value; add_defined_set and condition_kind_matches trusted with no contract; the tails of delete_statement / delete_policy (editing a statement / policy that is not in use) carry no functional contract, only panic-freedom and the in-use guard; delete_defined_set: rule R20 replaces everything behind the in-use guard of each of its six arms (`if all { .. }` and the member-removal code: IpLookupTable / Regex / retain, outside Verus's dialect) by an arbitrary outcome (vx_unverified_tail) — only the guard is verified, the removal code is NOT",
    "NOT under contract: the regular-expression members of an as-path set (known finding F-C14-4), prefix / neighbour sets with the ALL option (rejected by add_statement), the byte layout of community attributes, and the in-use guards of add_defined_set (merge), add_statement / add_policy (existing object) and the daemon-side per-peer checks",
]

UNIT_TRUSTED["table_idalloc"] = [
    "IdAllocator::{new,alloc,dealloc} wrapped in place; rule R21 turns `for (i, word) in self.bits.iter_mut().enumerate()` into an index loop that borrows one element per round through vx_vec_index_mut (ASSUMED: `&mut v[i]` yields the element at i and touches nothing else, what IndexMut for Vec promises); u64::trailing_ones through vstd's axiom_u64_trailing_ones (ASSUMED by vstd); bit-level facts by Verus's bit_vector back end; rule R22 drops the debug_assert!s of new / alloc from the verified text (release-build meaning; C06 is silent about panics). PRECONDITIONS not checked at call sites (Table mutators, note T): shard index < 256, some local id below 2^24 is free (the code's own documented limit of 16M destinations per shard), dealloc is given an id whose word exists",
]

UNIT_TRUSTED["table_rslocal"] = [
    "Table::rs_local_paths wrapped in place; RibEntry's Ord enters as an uninterpreted total comparison rib_cmp (its agreement with the property's decision order is what unit table_cmp proves); `iter().filter(p).max()` / `.min()` outlined as one helper whose last arguments say which method the code names and, as a ghost value, the predicate the closure computes (checked at the call site) — ASSUMED std contracts: max returns an element no other yielded element exceeds, min one that exceeds no other; `Option::into_iter().map(f).collect()` is a verified helper; Source::is_rs_client / remote_addr / RibEntry::is_filtered uninterpreted; Table, Source, RpkiValidation opaque",
]

UNIT_TRUSTED["daemon_peer_cfg"] = [
    "PeerParams::apply_peer_group and Peer::peer_role wrapped in place; GrPeerConfig, LlgrPeerConfig, RouteReflectorConfig, PeerConfig, PeerParams, PeerGroup, ConfederationConfig wrapped as they stand (transparent); IpAddr, Ipv4Addr, fsm::State, BfdPeerConfig, Disposition, IpNet, Update opaque; table::PeerRole mirrored transparently",
    "`x.clone()` of the copied group values outlined as vx_clone (ASSUMED: derived / std Clone of Option<String>, Option<GrPeerConfig>, Option<LlgrPeerConfig>, FnvHashMap<Family, _>, RouteReflectorConfig returns an equal value); the let-chains are desugared by rule R8; 'unset' markers (0, DEFAULT_HOLD_TIME 180, DEFAULT_CONNECT_RETRY_TIME 3, None, no family, false) are taken from the code — the property does not name them; rlimit(200), about 22 s",
    "Peer and Global stay outside Verus (Arc<Mutex<..>>, sockets, tokio handles): `self.config` and `global.confederation.as_ref()` are read through two assumed accessors (vx_peer_config, vx_global_confed); FnvHashSet<u32>::contains through vstd's HashSet model (u32 key model, FNV hasher assumed valid); `is_some_and(|(_, members)| ..)` outlined as the match it is defined to be",
    "NOT under contract: PeerParams::build (local AS defaulting to the global AS, default port, capability list), build_local_cap, the TryFrom conversions from the configuration file / API, Global::add_peer, accept_connection (async), negotiate_gr / negotiate_llgr",
]

UNIT_TRUSTED["daemon_gr_neg"] = [
    "PeerSession::negotiate_gr / negotiate_llgr, each put into an impl block of its own where it stands (rule SPLIT: `}` / `impl PeerSession {` inserted around the method, the method text untouched) because the rest of `impl PeerSession` (async fns, select!) does not pass the verus! macro even as external items; PeerSession itself stays outside Verus, its `local_cap` field is read through an assumed accessor (vx_session_local_cap)",
    "the four `iter().find_map(|c| match c { .. })?` lookups of the first GracefulRestart / LongLivedGracefulRestart capability are outlined verbatim (vx_first_gr_local / _remote, vx_first_llgr_local / _remote) with ASSUMED contracts: the fields of the first such element of the list (first_gr / first_llgr, recursive reference functions), families without their flags for the local side",
    "`into_iter().filter(p).collect()` and `iter().filter_map(f).collect()` are R12 helpers with ASSUMED std semantics (exactly the elements p accepts, in order / exactly the values f returns as Some); the closures stay verbatim at the call site and are verified there (`pf == f` on references rewritten to `*pf == *f`, rule R9); `peer_families.iter().any(..)` / `.find(..)` through the verified loops VxIterS::any / vx_find; Duration::from_secs as an uninterpreted function of the seconds",
    "NOT under contract: where the result is used (PeerSession::run / on_established, async), the capability lists themselves (PeerParams::build_local_cap; the remote list is what parse_message decoded)",
]

UNIT_TRUSTED["daemon_mrt_conv"] = [
    "adj_rib_in_to_mrt (daemon/src/mrt.rs), adj_rib_in_to_bmp_update and adj_rib_out_to_bmp_update (daemon/src/bmp.rs) wrapped in place; AdjRibInChange / AdjRibOutChange wrapped as they stand; bgp::Update and mrt::Message mirrored transparently, PathNlri / Nexthop / Attribute / IpAddr / table::Source / mrt::MpHeader opaque",
    "mrt::MpHeader::new as an uninterpreted constructor mp_header(..) of its six arguments (its fields are private to the packet crate; what it writes is unit packet_mrt); the plain fields of table::Source (it holds atomics) read through accessor shims (R13); `.clone()` of the prefix list / attribute list outlined as vx_clone_m (ASSUMED to return an equal value); `vec![x]` as a verified one-element helper",
    "NOT under contract: where these values come from (TableManager::insert_route / remove_route, async) and where they go (MrtDumper / BmpClient serve loops, async); daemon/src/mrt.rs dump_table (async)",
]

UNIT_TRUSTED["packet_negotiate"] = [
    "PeerCodec::negotiate wrapped in place, including its local struct `Raw`, the `parse` closure (five loops under invariants) and the main loop; R11 / R11b helpers with assumed contracts: vx_hm_get_mut (`h.get_mut(f)` as a `&mut` into the map), vx_hm_into_vec (`for (f, rc) in parse(remote)`: the entries of the map, each key once, order unspecified — the statement is split into `let rmap = parse(remote); let rv = ..; for .. in rv`), VxIterS (`v.iter()` on a slice with verified `.any`); vstd's HashMap::{insert, remove}; Family obeys the hash-key model; Family::afi uninterpreted; the type annotation `FnvHashMap<Family, FamilyState>` added to `families` (rustc infers the same); #[verifier::loop_isolation(false)], rlimit(400)",
    "the reference: a family is advertised iff some MultiProtocol capability names it; its ADD-PATH value is the last one listed for it over all ADD-PATH capabilities in order (0 if none), only for advertised families; extended next hop iff the family has AFI 1 and some ExtendedNexthop entry (f, 2) — taken from the code's reading of RFC 7911 / RFC 8950, the property only asks for the mirror image",
    "NOT under contract: graceful restart / LLGR negotiation (negotiate_gr, negotiate_llgr in daemon/src/event/mod.rs), hold time (min of both, in the FSM: C07/C08), role and 4-octet AS as used by the FSM",
]

UNIT_TRUSTED["daemon_restart"] = [
    "prelude p_restart: the pending map FnvHashMap<IpAddr, FnvHashSet<Family>> viewed as Map<IpAddr, Set<Family>> (vstd's HashMap / HashSet views; IpAddr and Family obey the hash-key model, fnv builds valid hashers: assumed)",
    "R11 / R11b helpers, each with the replaced expression as its body (contracts assumed): vx_pending_get_mut (`get_mut` and the occupied case of `entry()` as a `&mut` into the map: only that key's value changes, stated over final(..) of the returned reference), vx_entry_insert (OccupiedEntry::insert = replace the value, return the old one), vx_values_any (`values().any(f)` = f holds for some stored set), vx_union_values_set / vx_union_values_vec (the union of the sets; as a vector each family once), vx_set_into_vec_nodup (every element once), vx_set_filter_copied (the elements satisfying the verified predicate, each once), vx_sort_families (a permutation; the sort key only decides the order), vx_peers_filter_map_collect (`into_iter().filter_map(f).collect()` into a map for an f that keeps the key — that it does is a precondition checked at the call site), vx_fams_into_set; std::mem::replace",
    "complete_for's iterator chain is the verified loop vx_iter_filter_map_collect (R12c); rlimit(100) on process",
    "NOT under contract: Rib.deferring / Table::{insert,start_deferral,end_deferral} (note T) — that selection is suppressed while a family is deferred and that end_deferral emits every destination exactly once; the async driver (process_restarting_outputs, gr_selection_deferral_timer_expired) — that the inputs arrive as the events they are named after and that each FamilyDeferralComplete / EndDeferral is turned into exactly one end_deferral per family",
]

UNIT_TRUSTED["daemon_export"] = [
    "prelude p_export: packet::Attribute opaque with uninterpreted observers (code / value / binary / is_opaque / is_transitive = field reads of the packet crate); the AS_PATH edits as_path_prepend / as_path_prepend_confed / as_path_strip_confed / as_path_count, with_partial_bit, new_with_value, new_with_bin, empty_as_path are uninterpreted in this unit (the byte-level functions as_path_count / as_path_prepend / as_path_prepend_confed / as_path_strip_confed are verified in unit packet_aspath against byte specs, with lemmas that a prepend adds exactly one occurrence and one hop and keeps the structure, and that stripping removes exactly the confederation segments); assumed contracts here (result keeps the code; constructors return Some for the well-known codes 5, 8, 9, 10 — canonical_flags table, Kani harness c05_canonical_flags_table); 'prepended exactly once' therefore means 'as_path_prepend is applied exactly once to the confed-stripped path'",
    "table::Source kept outside Verus (atomics): remote_asn / local_asn read through accessor shims (R13); is_local (pointer identity), is_rr_client, is_rs_client assumed to return the role test they are named after; derive(PartialEq) on PeerRole structural; IpAddr::is_unspecified uninterpreted; Nexthop::addr = the address of the next hop",
    "prelude p_iter: std iterator chains (iter().filter/map/cloned/filter_map…collect, any, find, partition_point) replaced by verified loops with Seq-algebra contracts (rewrite R12 / R12c; assumed: std's adapters behave like these loops); R11 helpers (assumed): Arc::make_mut(..).retain(p) keeps exactly the elements satisfying p, u32::from(Ipv4Addr).to_be_bytes() = the address octets, [u8]::to_vec copies, chunks(4).any(== pat) = some aligned 4-byte chunk equals pat",
    "A-C09-1 (precondition of export_attrs / is_as_loop): every stored AS_PATH attribute holds a byte string (Attribute::decode guarantees it for wire input; as_path_* unwrap it)",
    "process_nlri_change is verified in place with: ExportMap modelled as the set of (family, destination id, path id) it has marked (mark_sent / mark_withdrawn / was_sent / contains_path / sent_path_ids: contracts assumed, hashbrown code not verified); the generic NlriSink modelled by a ghost log that reach / unreach append to (external trait extension: holds for every implementation that does nothing else observable to this function); BmpAdjOut::pre / post assumed not to touch the sink or the export map; table::apply_export an uninterpreted deterministic function of its arguments that keeps AS_PATH attributes well-formed (A-C09-2); RtcFilter::allows uninterpreted; NlriChange / Path mirrored transparently, new_best = first of current_paths; Source::{remote_addr,router_id} accessor shims, is_llgr_stale an atomic read as a plain field",
    "rewrites in process_nlri_change: R16 (Option::is_some_and(closure capturing &mut) -> match), R11 (`for &pid in sent_ids.difference(&current_ids)` outlined to a Vec without duplicates in unspecified order; `current_top_n.iter().map(..).collect()` into a hash set outlined), R12c (the filter.filter.filter.take.filter_map chain -> verified loop helper), R8 (let-chains)",
    "NOT under contract: the callers of process_nlri_change (handle_prefix_update, on_established's initial dump, do_route_refresh: async) and the effective_max / cluster_id / policy they pass; the inbound ORIGINATOR_ID / CLUSTER_LIST loop checks in rx_update (async)",
]

UNIT_TRUSTED["packet_bmp"] = [
    "prelude p_bytes: bytes::BufMut as an append-only byte sequence (external trait extension: put_u8 / put_u16 / put_u32 / put_u64 / put_slice append the big-endian bytes — assumed for every implementation), BytesMut::{len, with_capacity, as_ref}; R11 helper vx_patch_u32 for `(&mut c.as_mut()[pos..]).write_u32::<NetworkEndian>(v).unwrap()` (overwrites four bytes in place; requires pos + 4 <= len, which turns the unwrap into an obligation); tokio_util Encoder as an external trait",
    "prelude p_bmp: PeerCodec::encode_to is NOT under contract (C04): R11 helper vx_encode_to assumes it returns Ok, appends bgp_wire(codec, msg) — an uninterpreted byte string that may hold several BGP frames — and leaves the codec alone; set_family(.., FamilyState { addpath_tx, ..Default }) outlined as codec_with_addpath; IpAddr / Ipv4Addr / Ipv6Addr octets uninterpreted with their lengths; PeerCodec::new() = fresh_codec()",
    "A-C19-1 (truncating casts the code performs): the record is shorter than 4 GiB (`len as u32`), an Initiation TLV value shorter than 64 KiB (`bin.len() as u16`); the contract mirrors the truncation, so well-formedness of longer inputs is NOT claimed",
    "NOT covered: that the embedded BGP PDUs parse back to the monitored routes (bgp_wire is uninterpreted; C04 not claimed), the daemon-side converters in daemon/src/bmp.rs (async / channel code), statistics / mirroring / termination messages (no body)",
]
UNIT_TRUSTED["packet_mrt"] = [
    "prelude p_bytes / p_bmp as for packet_bmp; additionally R11 helpers vx_unix_secs (any u32), vx_attr_encode_wire / vx_nlri_encode (append attr_wire(a) / nlri_wire(n), uninterpreted: C04), vx_patch_u16, Nexthop::to_bytes = 4, 16 or 32 octets, Family::IPV4.afi() = 1 and Family::IPV6.afi() = 2",
    "write_mrt_record takes the body writer as `impl FnOnce(&mut BytesMut)`: its contract is stated over call_ensures of that closure (the writer only appends; if it always appends b the record is header(len b) + b); the three closures of encode_table_dump are verified in place against their byte-level bodies",
    "A-C19-2 (truncating casts the code performs): fewer than 65536 peers / RIB entries per record, attribute block shorter than 64 KiB, next hop at most 254 bytes — mirrored, not claimed beyond; A-C19-3: MpHeader::encode writes the local address only when it has the peer address's family (always the case for a TCP session) and 2-byte AS numbers when is_asn4 is false although the record subtype says AS4 (the daemon always passes true): both mirrored in mp_header_bytes, well-formedness for the other inputs is NOT claimed",
    "NOT covered: daemon/src/mrt.rs (dump_table's peer-index / sequence-number bookkeeping, async), that embedded BGP data parses back (C04)",
]

UNIT_TRUSTED["packet_aspath"] = [
    "Attribute / AttributeData are wrapped in place (transparent); io::Cursor over the attribute bytes as (buffer, position) with byteorder reads as R11 helpers (`requires pos + k <= len`: every `.unwrap()` is an obligation; the `?` forms return Err iff the buffer is exhausted); Vec<u8> as a bytes::BufMut appends to the vector; R11 helpers vx_put_tail / vx_put_range for `dst.put(&src[a..b])`, vx_assert_eq_u8 for `assert_eq!` (the comparison becomes a precondition)",
    "precondition aspath_wf: the AS_PATH bytes have the structure Attribute::decode validates (segment types 1..=4, segments fill the value; empty segments allowed) — under it `unreachable!()` in as_path_length is proved unreachable; for values built elsewhere (gRPC, policy actions) it is an assumption (A-C09-1)",
    "as_path_prepend additionally requires len + 6 <= usize::MAX (Vec::with_capacity argument)",
]

UNIT_TRUSTED["packet_encode"] = [
    "prelude p_encode: the generic destination `B: BufMut + AsMut<[u8]>` is an append-only byte sequence (p_bytes) whose length `dst.as_mut().len()` reads (R11 helper vx_buf_len, a slice length <= isize::MAX) and whose bytes `(&mut dst.as_mut()[pos..]).write_u16(..)` overwrites in place (vx_buf_patch_u16, `requires pos + 2 <= len`); `put_bytes(0, n)` appends n zeros; Vec<u8> as BufMut appends to the vector",
    "Nlri::encode and the per-family NLRI encoders are NOT under contract: `item.nlri.encode(dst).unwrap()` appends nlri_wire(nlri), an uninterpreted byte string assumed non-empty and shorter than 64 KiB and assumed not to fail; Nexthop::to_bytes = 4 / 16 / 32 octets; Family::afi / safi uninterpreted; PathNlri opaque (path_id through an accessor shim); FnvHashMap obeys vstd's map model (fnv / Family key axioms)",
    "do_encode's private callees enter with assumed contracts: Capability::encode / Attribute::encode_wire append cap_wire / attr_wire (uninterpreted byte strings) and return their length, Attribute::new_with_bin is Some for the well-known codes, the NEXT_HOP attribute built from 4 octets is 7 bytes on the wire, HoldTime / Notification / Nexthop / Ipv4Addr accessors uninterpreted; rewrites: R17 (`if c { s; continue; } rest` -> if / else in a for loop), R10 in match-arm pattern position, R13 for the Family(raw) pattern, `&entries[start..]` outlined (requires start <= len)",
    "do_encode_pre (A-C04-1..4, the weakest precondition under which the narrow counters do not overflow and a frame can fit): OPEN capabilities <= 253 bytes (violated by real configurations: known finding F-C04-2); four-octet-AS session (the two-octet down-conversion branch is NOT covered); the attribute block plus one MP header fits the frame; IPv4 unicast NLRI take <= 5 bytes; start <= entries.len(); a NOTIFICATION's data fits the frame",
    "NOT covered: encode_to's chunking loop as a whole (do_encode's contract gives its step: start <= next <= len), the 2-byte AS down-conversion, the per-family NLRI / attribute / capability encoders, and the round trip through the peer's decoder",
]

UNIT_TRUSTED["packet_nlri"] = [
    "prelude p_nlri: a generic `T: io::Read` source is a stream with `left()` bytes to go (external trait extension); byteorder read_u8 / read_exact and the `for b in addr.iter_mut().take(n) { *b = c.read_u8()?; }` idiom are R11 helpers: a read either fails or consumes exactly what it returns; precondition left() <= 65535 (the source is part of a BGP message)",
    "MplsLabelStack::decode is NOT verified: assumed to return at least one label, as many as the peer sends (no upper bound — that is the point), consuming 3 bytes each; encoded_len = 3 * depth; RouteDistinguisher::decode, Ipv4Addr / Ipv6Addr::from(octets) total; u8::div_ceil as defined",
    "MUP decoders (packet/src/mup.rs: MupNlri::decode and the four route-type decoders, addr_bit_len, decode_ip, decode_prefix): slice range indexing `&data[a..b]` is rewritten (R18) to helpers whose `requires a <= b <= len` is Rust's bounds check; `x[..n].copy_from_slice(..)` and byteorder's slice reads likewise; integer constants in match patterns are replaced by their (compile-time checked) values",
    "Flowspec decoders (packet/src/flowspec.rs: Op::decode, decode_ops, the prefix decoders, read_nlri_len, both component decoders, the four NLRI decoders): the stream model also carries `total()`; the inner io::Cursor over the NLRI bytes is such a stream (Cursor::new / position as R11 helpers: position + left == total); `vec![0u8; n]`, the RD byte loop and the formatted error are outlined",
    "Labeled-unicast decoders (packet/src/labeled.rs): verified panic-free with masks within the address width; they truncate the label-stack bit count with `as u8` (no panic: a stack of 32 labels is mis-parsed rather than rejected — noted, outside C03's wording)",
    "NOT covered: the other per-family NLRI decoders (EVPN, BGP-LS; SR-policy and RTC are straight-line reads), decode_nlri_list's loop",
]

# minimum number of functions that must produce obligations / of must-fail twins that must run
FLOORS = {"daemon_fsm": 30, "daemon_gr": 4, "daemon_peer_tx": 9, "table_cmp": 20, "packet_validate": 1, "packet_parse": 1, "table_rpki": 5, "table_policy": 13, "daemon_export": 11, "packet_bmp": 6, "packet_mrt": 8, "packet_aspath": 11, "packet_encode": 4, "packet_nlri": 22, "daemon_restart": 7, "packet_negotiate": 1, "table_rslocal": 1, "daemon_peer_cfg": 2, "daemon_gr_neg": 2, "daemon_mrt_conv": 3, "table_idalloc": 3}
TWIN_FLOORS = {"daemon_fsm": 8, "daemon_gr": 3, "daemon_peer_tx": 2, "table_cmp": 4, "packet_validate": 1, "packet_parse": 1, "table_rpki": 1, "table_policy": 1, "daemon_export": 1, "packet_bmp": 1, "packet_mrt": 1, "packet_aspath": 1, "packet_encode": 2, "packet_nlri": 1, "daemon_restart": 1, "packet_negotiate": 0, "table_rslocal": 0, "daemon_peer_cfg": 0, "daemon_gr_neg": 0, "daemon_mrt_conv": 0, "table_idalloc": 3}

PLAN = {
    "C01": {"verus": ["daemon_peer_tx", "daemon_export"], "level": "proof",
            # of the export unit, C01 looks at the diff of the exportable window against what was sent
            "fn_filter": {"daemon_export": ["process_nlri_change"]}},
    "C05": {"verus": ["packet_validate", "packet_parse"], "kani": ["c05_canonical_flags_table"] + ["c05_attr_decode_" + x for x in ("origin", "med", "local_pref", "atomic_aggregate", "aggregator", "community", "originator_id", "cluster_list", "ext_community", "as4_aggregator", "large_community")] + ["c05_attr_decode_as_path_len%d" % n for n in (0, 6, 7, 8, 12)] + ["c05_attr_decode_as4_path_len%d" % n for n in (6, 7, 12)], "level": "proof"},
    "C06": {"verus": ["table_idalloc"], "kani": ["c06_id_alloc_unique", "c06_id_dealloc_exact", "c06_id_alloc_mustfail"], "level": "proof",
            "explanation": "Identifier clause of C06 only. Verus (unbounded: any number of bitmap words, every word over its full 64-bit domain) on the real IdAllocator::{new,alloc,dealloc} wrapped in place: the bitmap is viewed as the set of live local ids; alloc returns an id that no live prefix of the shard holds, whose bits 31..24 are the shard index, and makes exactly that id live (whole-view postcondition: every other id keeps its state); dealloc frees exactly its id; a fresh allocator has no live id; the arithmetic of the local id cannot overflow under the stated precondition that a local id below 2^24 is free (the debug_assert!s are dropped, rule R22). The three Kani/CBMC harnesses (<= 4 bitmap words, BOUNDED, counted as bounded stand-ins and not as proof) stay as the source of concrete counterexamples for the replay. Which free id is chosen and whether the bitmap is trimmed is not asserted (the property does not ask for it). NOT covered: that Table::{insert,remove,...} pair alloc / dealloc with the life of a prefix, the change-stream fold and the end-of-deferral clause (Table mutators, note T)."},
    "C07": {"verus": ["daemon_fsm", "packet_parse"], "level": "proof"},
    "C08": {"verus": ["daemon_fsm"], "level": "proof"},
    "C09": {"verus": ["daemon_export", "packet_aspath"], "level": "proof",
            "fn_filter": {"packet_aspath": ["as_path_count", "as_path_prepend", "as_path_prepend_confed", "as_path_strip_confed",
                                            "lemma_prepend_props", "lemma_strip_props", "lemma_seg_count_shift", "lemma_seg_count_first", "lemma_be32_roundtrip"]}},
    "C10": {"verus": ["daemon_gr"], "level": "proof"},
    "C11": {"verus": ["daemon_restart"], "level": "proof"},
    "C12": {"verus": ["table_rpki"], "kani": ["c12_covering_key_v4", "c12_covering_key_v6"], "level": "proof"},
    "C14": {"verus": ["table_policy"], "level": "proof"},
    "C16": {"verus": ["daemon_fsm", "packet_negotiate", "daemon_peer_cfg", "daemon_gr_neg", "packet_parse"], "kani": ["c16_ipnet_contains_v4", "c16_ipnet_contains_v6"], "level": "proof"},
    "C04": {"verus": ["packet_encode", "packet_aspath"], "level": "proof", "kani": ["c04_ipv4_entry_round_trip", "c04_ipv6_entry_round_trip"],
            "fn_filter": {"packet_aspath": ["encode", "encode_wire", "value", "binary", "as_path_has_wide_as", "lemma_seg_any_wide_mono"]}},
    "C02": {"verus": ["table_cmp", "table_rslocal", "packet_aspath"], "level": "proof",
            "fn_filter": {"packet_aspath": ["as_path_length"]}},
    "C19": {"verus": ["packet_bmp", "packet_mrt", "daemon_mrt_conv"], "level": "proof"},
    "C03": {"verus": ["packet_parse", "packet_nlri"], "level": "proof",
            "kani": ["bfd_decode_total_and_exact", "bfd_decode_mustfail", "rtr_frame_length_contract",
                     "rtr_from_bytes_total", "rtr_decode_framing", "bgp_try_parse_framing", "c03_nlri_ipv4", "c03_nlri_ipv6"]},
}
