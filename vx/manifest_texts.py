HOOK_COMMITS = ["aec710a"]
NOTES = ("Exit codes of ./check: 0 held, 1 violation (VIOLATION line), 2 undecided (lost anchor, unsupported construct, "
         "resource limit, vacuity guard) — an undecided run never prints VIOLATION. Genuine defects found while building: "
         "see KNOWN_FINDINGS.json (fixed: entries name the fix: commits in /repo).")

CHECKS = {
    "C01": {
        "text": "Proof (Verus, unbounded) of the 'no withdrawal is lost' clause at the pending-update queue: PendingTx::{reach, unreach, keep_displaced_unreach, is_empty, new, schedule_eor} are verified in place. reach() queues exactly its announcement (whole-map equality frames every other key) and never drops the queued withdrawal of another prefix, even when the destination id under which it is queued has been reused (F-C01-1, found by this obligation and fixed); unreach() cancels only the announcement of the same key, queues its withdrawal and drops no other; neither invents withdrawals. Holds for every sequence of calls by induction over the per-call contracts.",
        "design_ref": "DESIGN.md §4 C01",
        "note": "Scope is the queue only. NOT covered: drain_messages (hashbrown drain/Entry outside Verus; CBMC infeasible), ExportMap and process_nlri_change (the diff against what was sent, filters, add-path window), the equality with a brand-new session, and every scheduling aspect (A-C01-1). Trusted: prelude (opaque Nlri/Attribute/Nexthop, structural PartialEq on Nlri, hash key model for (u32,u32)), A-C01-2.",
        "technique": "deductive verification with Verus: whole-map postconditions on the real PendingTx methods",
    },
    "C05": {
        "text": "Proof (Verus, unbounded in every list length) of the RFC 7606 classifier: validate_update is verified in place against the property — it never resets the session; if any recorded attribute error is not discardable (discardable = optional non-transitive by the attribute's definition, by the received flags only for unknown codes, or AS4_PATH / AS4_AGGREGATOR) or a mandatory attribute (ORIGIN, AS_PATH, next hop except Flowspec) is missing, no Reach comes out and every announced block comes out as a withdrawal; withdrawals of the same UPDATE always come out; whatever route is kept is an announced one carrying the UPDATE's attributes with exactly LOCAL_PREF / ORIGINATOR_ID / CLUSTER_LIST removed when the peer is external; a well-formed UPDATE keeps its routes. Kani proves the attribute flag table the Verus proof assumes (all 256 codes). Found and fixed F-C05-1.",
        "design_ref": "DESIGN.md §4 C05",
        "note": "Parse side: parse_message is verified to hand on only well-flagged known attributes and unknown optional transitive ones (wrong-flag and unrecognised well-known attributes never reach the attribute list). NOT covered: that each such fault is also *recorded* in error_attrs (needs a functional spec of the attribute walk; not built), and that the session is reset only for unparsable NLRI. Trusted: see coverage.trusted_base.",
        "technique": "deductive verification with Verus of the real validate_update (loop invariants, closure contracts) + complete Kani harness for the flag table",
    },
    "C06": {
        "text": "Bounded model checking only (Kani/CBMC on the real IdAllocator, <= 256 live ids, full 64-bit words): destination identifiers are unique among live prefixes of a shard, least-free allocation, exact frame. Reported at level 'other' — a bounded stand-in is never counted as proved.",
        "design_ref": "DESIGN.md §4 C06",
        "note": "Only the identifier clause. The change-stream fold ('folding notifications reproduces the RIB') and 'ending a deferral announces every held-back prefix' live in the Table mutators (note T) and are not covered by any check.",
        "technique": "Kani/CBMC bounded harnesses on the real IdAllocator::{alloc,dealloc} (bound: 4 bitmap words)",
    },
    "C07": {
        "text": "Proof (Verus, unbounded): every function of daemon/src/fsm.rs (Connection::*, PeerFsm::*) is verified in place inside the real rustybgpd crate against contracts taken from the property: per-transition postconditions of Connection::process (how Established/OpenConfirm/OpenSent can be entered, FSM-error NOTIFICATION carrying the state, teardown inputs always yield SessionDown) and an inductive invariant of PeerFsm::process (at most one connection in OpenConfirm-or-Established; Established survives a newcomer; loser chosen by BGP identifier and sent Cease/collision; SessionDown frees the slot and reports Idle). Holds for all inputs and, by induction over the step contract, all input histories.",
        "design_ref": "DESIGN.md §4 C07, §3.1",
        "note": "Trusted: prelude contracts on packet-crate types (HoldTime, PeerCodec::negotiate uninterpreted, Clone = equal value), derive(PartialEq) structural, fnv hashing axioms, generator rewrites R1/R3/R9/R10/R12/RC; the async driver feeding PeerFsm under its mutex (A-C07-1) and the validity of a received OPEN's identifier/hold time (parse_message, not yet under contract) are assumptions.",
        "technique": "deductive verification with Verus: contracts + inductive invariant on the real fsm.rs wrapped in place",
    },
    "C08": {
        "text": "Proof (Verus, unbounded): Connection::process is verified against a ghost model of the driver's timers taken from the property text: negotiated hold time = min(local, remote), keepalive = a third; hold_cmd(outputs) == spec_hold_cmd(old, input, new) says the hold timer is armed on connect (240 s), on the accepted OPEN (negotiated value, or cancelled when zero) and re-armed by exactly KEEPALIVE/UPDATE received in OpenConfirm/Established; no timer is ever armed with 0; with a zero negotiated hold time nothing arms a timer after the OPEN.",
        "design_ref": "DESIGN.md §4 C08",
        "note": "Trusted: the driver's timer semantics (apply_outputs: last Set*/Cancel* wins; A-C08-1), timer inputs only after arming and configured hold time in {0} ∪ [3,65535] (A-C08-2), prelude contracts as for C07. Found and fixed F-C08-1/2 (fix: commit a592161).",
        "technique": "deductive verification with Verus: postconditions over a ghost timer model on the real Connection code",
    },
    "C10": {
        "text": "Proof (Verus, unbounded) of the helper-side machine: GrState::process is verified in place against a coverage invariant taken from the property — every family whose routes are preserved is, after each step, still covered by an armed restart timer, an armed LLGR timer for that family or an awaited End-of-RIB, or is named in a Delete* output of that very step; nothing is deleted that was not held; helper mode is entered only by a session drop carrying GR/LLGR parameters and arms the timer(s); a session drop during the LLGR period changes nothing; StopTimer / StopLlgrTimers are emitted only on re-establishment (a failed reconnection never disarms). gr_on_disconnect is verified against the RFC 4724 / RFC 8538 decision table (never for admin shutdown, FSM error, hard reset, locally detected non-Cease errors; without the N-bit only for TCP/IO drops). By induction over the step contract the invariant holds after any input history. Two transitions that break the invariant are recorded as known findings (F-C10-1, F-C10-2) and checked as must-fail twins; a third (F-C10-3) was fixed.",
        "design_ref": "DESIGN.md §4 C10",
        "note": "Not covered (async driver, outside contract reach): that the driver deletes/marks exactly what GrState says and keeps its timers in step (A-C10-1, known false at two call sites by inspection), NO_LLGR handling and re-announced routes surviving the purge (Table functions, note T), families_to_drop_on_disconnect (generic iterator argument). Trusted: prelude contracts (mem::replace, is_hard_reset, R11/R12 iterator helpers), fnv hash-set model, A-C10-2.",
        "technique": "deductive verification with Verus: per-transition coverage invariant on the real GrState::process, decision-table postcondition on gr_on_disconnect",
    },
    "C02": {
        "text": "Proof (Verus, unbounded) that the comparator IS the stated decision order: RibEntry::cmp (with PartialOrd/PartialEq) is verified in place against spec_cmp written from the property (not LLGR-stale first, then higher LOCAL_PREF, shorter AS_PATH, lower ORIGIN, eBGP over iBGP/confed-eBGP, not GR-stale, shorter CLUSTER_LIST, lower ORIGINATOR_ID/router-id); evpn_type2_cmp puts the MAC-mobility sequence number ahead of everything; the five PathAttribute accessors are verified against 'first attribute with that code, else the default' (including their unwrap()s under the wire-validity invariant); NlriChange::ecmp_paths returns exactly the longest prefix of the ranking tied with the best path on every step before the router-id step; spec lemmas show the order is lexicographic on the stated key and a total preorder, so 'no eligible path beats the selected one' is well defined. Found and fixed F-C02-1 (LLGR staleness compared sixth instead of first) and F-C02-3 (ECMP key without LLGR staleness).",
        "design_ref": "DESIGN.md §4 C02",
        "note": "NOT covered (note T): that the Table mutators keep each destination list sorted by this comparator, exclude import-rejected / next-hop-invalid paths and are insensitive to arrival order — those are 60-170-line hashbrown/Arc/atomic functions outside Verus's dialect, and CBMC does not terminate on hashbrown. AS_PATH hop counting (packet::Attribute::as_path_length) is an uninterpreted function here. Trusted: see coverage.trusted_base (packet accessors, Source kept outside Verus, A-C02-1).",
        "technique": "deductive verification with Verus: OrdSpecImpl postcondition on the real RibEntry::cmp, spec lemmas for the order",
    },
    "C03": {
        "text": "Kani/CBMC on the real decoders compiled inside the packet crate. BFD: Message::decode is loop-free and proved total and exact for every datagram of 0..=300 symbolic bytes (complete: accepts exactly the well-formed packets, reports the wire fields, never panics). RTR: Message::frame_length proved against its full contract (complete, loop-free: a frame is reported only if 8 <= length <= buffered bytes; 'need more bytes' only when no complete PDU is buffered; impossible lengths are errors), Message::from_bytes total on complete frames up to 40 bytes (bounded), RtrCodec::decode's framing loop with from_bytes replaced by 'any outcome' (bounded, buffers <= 24 bytes): a message only after consuming > 0 bytes, a complete PDU is consumed, skipped or rejected. BGP: PeerCodec::try_parse framing with the body parser replaced by 'any outcome' (bounded buffers <= 40 bytes, length field and extended-message flag fully symbolic), and — Verus, unbounded — the whole of PeerCodec::parse_message (all five message types, 450 lines, three loops with invariants and termination measures) verified in place: every addition, subtraction, cast, slice, index and unwrap is an obligation, so no message of up to 65535 bytes can panic it or make it loop. Bounded harnesses are reported separately and not counted as proved.",
        "design_ref": "DESIGN.md §4 C03, §3.2",
        "note": "NOT covered: the per-family NLRI decoders (decode_nlri_list and below) and the attribute / capability body decoders — leaf byte-level code behind assumed 'total, cursor stays inside the buffer' contracts. Trusted: see coverage.trusted_base (Cursor model, byteorder read helpers, R11b shims). Found and fixed F-C03-1 (u16 overflow in the UPDATE length check, b1d9580) and F-C03-2/3 (RTR decoder stall, 0227dc4).",
        "technique": "Verus on the real parse_message (panic-freedom, termination) + Kani/CBMC harnesses on the real BFD / RTR / framing functions (complete where loop-free, else bounded)",
    },
    "C16": {
        "text": "Proof of the containment and same-direction clauses: IpNet::contains is proved (Kani, complete: every IPv4 / IPv6 prefix without host bits, every mask and address) to hold exactly when the leading mask bits agree and never across families — the test that admits a connection under a dynamic-neighbour prefix; PeerFsm::on_connected (Verus) rejects a second connection in the same direction with CloseConnection and leaves the existing one untouched.",
        "design_ref": "DESIGN.md §4 C16",
        "note": "NOT covered: accept_connection / Global::add_peer (async, locks, sockets): that only configured or dynamically permitted addresses reach the FSM, that parameters come from the neighbour's configuration, and deletion of dynamic neighbours; the mirror-image negotiation clause (PeerCodec::negotiate) and the effective add-path maximum are not under contract yet. Preconditions made explicit: mask <= address width and no host bits in the configured prefix (config parsing, unverified).",
        "technique": "Kani/CBMC complete harnesses on the real IpNet::contains + Verus postcondition on PeerFsm::on_connected",
    },
}

_NOT_BUILT = "claimed in DESIGN.md but its check is not built yet in this round; listed here until the check is quiet on the unchanged tree"
NOT_APPLICABLE = {
    "C04": _NOT_BUILT, "C09": _NOT_BUILT, "C12": _NOT_BUILT, "C14": _NOT_BUILT,
    "C19": _NOT_BUILT,
    "C11": "RestartingDeferral::{new,process} use ~15 iterator adapters and the HashMap Entry API that Verus rejects (a function is verified whole or not at all) and CBMC does not terminate on hashbrown (20-min timeout at the smallest non-vacuous unwinding); no contract within reach decides it (DESIGN.md §5)",
    "C13": "the PDU fold lives inline in async fn serve_inner (tokio::select! over a Framed stream): Verus has no async, Kani no tokio; no non-async function carries the property (DESIGN.md §5)",
    "C15": "counters are maintained inline in Table::{insert,remove,drop,…}: 60–170-line functions over hashbrown entry/retain/Arc/atomics outside Verus's dialect; CBMC diverges on hashbrown (DESIGN.md §5 note T)",
    "C17": "7 kLoC of protobuf/string conversion: no str reasoning in Verus, prost/String values explode CBMC, a per-direction spec would be a second implementation (DESIGN.md §5)",
    "C18": "quantifies over thread interleavings of subscribe with shard mutations: Kani has no threads, Verus would need the table manager rewritten with permission tokens (DESIGN.md §5)",
    "C20": "whole-history property over Table mutators (note T), distribute_update and the async kernel task; no per-function contract decides it (DESIGN.md §5)",
}
