"""Replay lane (DESIGN.md §3.3): turn 'obligation X failed' into a concrete input run against the
real code where a replay harness exists; otherwise record the failed obligation and the verifier's
output.  Never decides anything by itself."""
import json
import os
import subprocess
import time

VERIF = os.path.dirname(os.path.dirname(os.path.abspath(__file__)))

# property -> (cargo package, test filter) of the replay harness compiled into the real crate
REPLAYS = {}
try:
    import plan
    REPLAYS = getattr(plan, "REPLAYS", {})
except Exception:
    pass


def run_replay_tests(prop, seed):
    """returns (found_failing_input: bool, output: str)"""
    ent = REPLAYS.get(prop)
    if not ent:
        return False, "no replay harness registered for this property"
    found = False
    outs = []
    for pkg, filt in ent:
        env = dict(os.environ)
        env["RUSTFLAGS"] = (env.get("RUSTFLAGS", "") + " --cfg osrg_rustybgp_verif").strip()
        env["VERIF_SEED"] = str(seed)
        env["CARGO_NET_OFFLINE"] = "true"
        env["CARGO_TARGET_DIR"] = os.path.join(VERIF, ".cache", "replay-target")
        p = subprocess.run(["cargo", "test", "--offline", "-p", pkg, filt, "--", "--nocapture", "--test-threads", "1"],
                           cwd=os.environ.get("VX_REPO", "/repo"), env=env, capture_output=True, text=True)
        out = (p.stdout + p.stderr)
        outs.append(out[-6000:])
        if p.returncode != 0 and "REPLAY-FAIL" in out:
            found = True
    return found, "\n".join(outs)


def make(prop, failures, seed):
    os.makedirs(os.path.join(VERIF, "replays"), exist_ok=True)
    path = os.path.join(VERIF, "replays", f"{prop}-{int(time.time())}.json")
    found = False
    outp = ""
    pb = [f.get("playback") for f in failures if f.get("playback")]
    if pb:
        found = True
        outp = "kani concrete playback:\n" + "\n".join(pb)
    else:
        found, outp = run_replay_tests(prop, seed)
    doc = {
        "property": prop,
        "failed_obligations": [{k: f.get(k) for k in ("lane", "unit", "fn", "label", "message", "text", "spans")} for f in failures],
        "failing_input_found": found,
        "replay_output": outp[-12000:],
        "how_to_rerun": f"./check {prop} --replay {path}",
        "seed": seed,
    }
    json.dump(doc, open(path, "w"), indent=1)
    return path, found


def rerun(prop, path):
    doc = json.load(open(path))
    print(json.dumps(doc["failed_obligations"], indent=1))
    found, out = run_replay_tests(prop, doc.get("seed", 0))
    print(out[-4000:])
    return 1 if found else 0
