#!/usr/bin/env python3
"""vx generator: wrap real items of a scratch copy of /repo in verus!{} where they stand and
splice the contracts of a .vspec file.  See DESIGN.md §3.1.

usage: gen.py <unit.vspec> <scratch-workspace> <out-map.json>

Exit codes: 0 ok, 2 lost anchor / malformed spec (never a verdict about the code).
"""
import hashlib
import json
import os
import re
import sys

sys.path.insert(0, os.path.dirname(os.path.abspath(__file__)))
from rtok import (tokenize, parse_items, parse_fn_sig, find_closures, find_loops, norm,
                  match_close, next_sig)


class LostAnchor(Exception):
    pass


# ------------------------------------------------------------------ vspec parsing

class FnSpec:
    def __init__(self, name, mode):
        self.name = name
        self.mode = mode            # verify | trusted | external
        self.ret = "r"
        self.contract = []          # raw lines
        self.closures = {}          # ordinal -> (header, [raw])
        self.loops = {}             # ordinal -> (iter_name|None, [raw])
        self.opt_loops = set()      # ordinals of `loop N?` annotations (skipped where the loop is gone)
        self.hints = []             # (where, anchor, [raw], optional)
        self.rewrites = []          # (rule, old, new)
        self.twins = []             # (name, [raw])
        self.novacuity = False
        self.attrs = []             # extra attributes
        self.derefs = []            # (ident, op): R9 explicit deref of a reference operand of a bit operator
        self.r12 = False            # X.iter().any(c) -> vx_any(X.as_slice(), c)
        self.r12map = {}            # receiver text -> helper name for X.into_iter().filter(c).collect()
        self.r16 = False
        self.slices = {}
        self.r12args = {}
        self.closure_alts = {}      # ordinal -> {key: (header, [raw])}: alternatives by parameter key
        self.closure_keys = None    # expected parameter keys of all closures of the function, in order (alignment)


class ItemSpec:
    def __init__(self, header, flags):
        self.header = header
        self.flags = flags          # e.g. {"R1"}
        self.fns = {}               # name -> FnSpec (for impl items) ; for `item fn x` a single entry
        self.rewrites = []
        self.default = "external"   # treatment of unlisted fns in a wrapped impl


class FileSpec:
    def __init__(self, path):
        self.path = path
        self.items = []
        self.imports = []
        self.append = []
        self.rewrites = []          # file-level rewrites (rule, old, new)


class UnitSpec:
    def __init__(self):
        self.unit = self.package = self.crate = self.root = None
        self.properties = []
        self.features = []
        self.prelude = None
        self.files = []
        self.floor = 0
        self.kind = "bin"
        self.extconsts = []         # (path text, type, value): associated consts of external types (R10)
        self.constmod = None        # (module path, file): where the R10 helpers live (default: the prelude module)
        self.fieldshims = []        # (owner field, field, helper): R13 `X.owner.field` -> helper(&X.owner)


def parse_vspec(path):
    u = UnitSpec()
    cur_file = cur_item = cur_fn = None
    raw_target = None
    lines = open(path).read().split("\n")
    for ln, line in enumerate(lines, 1):
        s = line.strip()
        if not s or s.startswith("#"):
            continue
        if s.startswith("|"):
            if raw_target is None:
                raise SystemExit(f"{path}:{ln}: raw line without a target")
            raw_target.append(s[1:][1:] if s.startswith("| ") else s[1:])
            continue
        w = s.split(None, 1)
        kw, rest = w[0], (w[1] if len(w) > 1 else "")
        if kw == "unit": u.unit = rest
        elif kw == "package": u.package = rest
        elif kw == "crate": u.crate = rest
        elif kw == "root": u.root = rest
        elif kw == "kind": u.kind = rest
        elif kw == "properties": u.properties = rest.split()
        elif kw == "feature": u.features.append(rest)
        elif kw == "prelude": u.prelude = rest
        elif kw == "floor": u.floor = int(rest)
        elif kw == "fieldshim":
            a = rest.split()
            o, f_ = a[0].split(".")
            u.fieldshims.append((o, f_, a[1]))
        elif kw == "constmod":
            a = rest.split()
            u.constmod = (a[0], a[1])
        elif kw == "extconst":
            a = rest.split()
            # extconst <path as written in the code> <type> <value> [<path resolvable from the prelude module>]
            u.extconsts.append((a[0], a[1], a[2], a[3] if len(a) > 3 else a[0]))
        elif kw == "file":
            cur_file = FileSpec(rest); u.files.append(cur_file); cur_item = cur_fn = None; raw_target = None
        elif kw == "import":
            cur_file.imports.append(rest)
        elif kw == "append":
            raw_target = cur_file.append
        elif kw == "item":
            m = re.match(r"(.*?)((\s+\[[A-Za-z0-9_,= ]+\])?)$", rest)
            hdr, fl = m.group(1), m.group(2)
            flags = set(x.strip() for x in fl.strip(" []").split(",")) if fl else set()
            cur_item = ItemSpec(norm(hdr), flags); cur_file.items.append(cur_item); cur_fn = None; raw_target = None
            if "verify_all" in flags:
                cur_item.default = "verify"
            if cur_item.header.startswith("fn "):
                cur_fn = FnSpec(cur_item.header[3:], "verify")
                cur_item.fns[cur_fn.name] = cur_fn
                raw_target = cur_fn.contract
        elif kw in ("fn", "trusted", "external"):
            mode = "verify"
            name = rest
            if kw in ("trusted", "external"):
                mode = kw
                name = rest.split()[-1]
            cur_fn = FnSpec(name.strip(), mode)
            cur_item.fns[cur_fn.name] = cur_fn
            raw_target = cur_fn.contract
        elif kw == "contract":
            raw_target = cur_fn.contract     # switch back to the function's own contract after sub-directives
        elif kw == "ret":
            cur_fn.ret = rest
        elif kw == "attr":
            cur_fn.attrs.append(rest)
        elif kw == "novacuity":
            cur_fn.novacuity = True
        elif kw == "deref":
            a, b = rest.split()
            cur_fn.derefs.append((a, b))
        elif kw == "r12":
            cur_fn.r12 = True
        elif kw == "r16":
            cur_fn.r16 = True
        elif kw == "slices":
            # slices data rest body:v header:a  — R18: `&NAME[a..b]` range indexing of these variables (s = slice
            # reference (default), v = Vec, a = array) becomes a helper call whose `requires` is the bounds check
            for w_ in rest.split():
                nm, _, kd = w_.partition(":")
                cur_fn.slices[nm] = kd or "s"
        elif kw == "r12arg":
            # r12arg <helper> <ghost argument text>: appended to the arguments of that R12c helper call
            hname, txt = rest.split(None, 1)
            cur_fn.r12args[hname] = txt
        elif kw == "closures":
            cur_fn.closure_keys = [k.strip() for k in rest.split(";")]
        elif kw == "r12map":
            a, b = rest.split()
            cur_fn.r12map[a] = b
        elif kw == "closure":
            # closure N (params) -> (ret)            : the annotation of the N-th closure
            # closure N alt "key" (params) -> (ret)  : an alternative used when the N-th closure's parameter key is `key`
            #   instead of the one listed under `closures` (e.g. two nested closures written the other way round): each
            #   variant states what a closure with those parameters computes, so the function's own postcondition decides
            m = re.match(r"(\d+)\s+(?:alt\s+(\"(?:[^\"\\]|\\.)*\")\s+)?(.*)$", rest)
            body = []
            if m.group(2):
                cur_fn.closure_alts.setdefault(int(m.group(1)), {})[norm(json.loads(m.group(2)))] = (m.group(3), body)
            else:
                cur_fn.closures[int(m.group(1))] = (m.group(3), body)
            raw_target = body
        elif kw == "loop":
            # `loop N? …`: an optional loop annotation — where the function has no N-th loop (the loop was replaced by
            # straight-line code) the annotation is skipped and the function is verified as written
            mo = re.match(r"(\d+)\?(.*)$", rest)
            if mo:
                rest = mo.group(1) + mo.group(2)
                cur_fn.opt_loops.add(int(mo.group(1)))
            m = re.match(r"(\d+)(\s+iter\s+(\w+))?(\s+pat\s+(\"(?:[^\"\\]|\\.)*\"))?(\s+over\s+(\"(?:[^\"\\]|\\.)*\"))?$", rest)
            if not m:
                raise SystemExit(f"{path}:{ln}: bad loop directive")
            body = []
            cur_fn.loops[int(m.group(1))] = (m.group(3), body, json.loads(m.group(7)) if m.group(7) else None,
                                             json.loads(m.group(5)) if m.group(5) else None)
            raw_target = body
        elif kw == "hint":
            body = []
            if rest.strip() in ("tail", "end", "result", "begin"):
                cur_fn.hints.append((rest.strip(), "", 1, body))
            else:
                m = re.match(r"(before|after)\s+(\"(?:[^\"\\]|\\.)*\")(\s+#(\d+))?$", rest)
                if not m:
                    raise SystemExit(f"{path}:{ln}: bad hint")
                cur_fn.hints.append((m.group(1), json.loads(m.group(2)), int(m.group(4) or 1), body))
            raw_target = body
        elif kw == "rewrite":
            m = re.match(r"(\w+\??)\s+(\"(?:[^\"\\]|\\.)*\")\s*=>\s*(\"(?:[^\"\\]|\\.)*\")$", rest)
            if not m:
                raise SystemExit(f"{path}:{ln}: bad rewrite")
            rw = (m.group(1), json.loads(m.group(2)), json.loads(m.group(3)))
            if cur_fn is not None: cur_fn.rewrites.append(rw)
            elif cur_item is not None: cur_item.rewrites.append(rw)
            else: cur_file.rewrites.append(rw)
        elif kw == "twin":
            body = []
            cur_fn.twins.append((rest.strip(), body))
            raw_target = body
        else:
            raise SystemExit(f"{path}:{ln}: unknown directive {kw}")
    return u


# ------------------------------------------------------------------ helpers

def find_subseq(toks, lo, hi, anchor_text):
    """all (first_tok, last_tok) where the significant tokens of toks[lo:hi] match anchor"""
    return [(a, b) for a, b, _ in find_subseq_w(toks, lo, hi, anchor_text)]


def find_subseq_w(toks, lo, hi, anchor_text):
    """like find_subseq, with wildcards: `$1`, `$2`… in the anchor match a non-empty bracket-balanced token run (an
    argument expression) up to the next anchor token; returns (first_tok, last_tok, {n: (first, last)})"""
    atxt = re.sub(r"\$rest\b", " __VXREST__ ", anchor_text)
    atxt = re.sub(r"\$block\b", " __VXBLOCK__ ", atxt)
    atxt = re.sub(r"\$(\d+)", r" __VXW_\1__ ", atxt)
    a = [t.text for t in tokenize(atxt) if t.kind not in ("ws", "comment")]
    idx = [k for k in range(lo, hi) if toks[k].kind not in ("ws", "comment")]
    out = []
    n = len(a)
    OPENB, CLOSEB = ("(", "[", "{"), (")", "]", "}")
    for i in range(len(idx)):
        j = 0
        p = i
        caps = {}
        ok = True
        while j < n:
            if p >= len(idx):
                ok = False; break
            if a[j] == "__VXBLOCK__":
                # `$block`: one brace-delimited block, whatever it contains
                if toks[idx[p]].text != "{":
                    ok = False; break
                depth = 0
                q = p
                while q < len(idx):
                    tx = toks[idx[q]].text
                    if tx in OPENB: depth += 1
                    elif tx in CLOSEB:
                        depth -= 1
                        if depth == 0: break
                    q += 1
                if q >= len(idx):
                    ok = False; break
                caps["block"] = (idx[p], idx[q])
                p = q + 1
                j += 1
                continue
            if a[j] == "__VXREST__":
                # `$rest` (last element of an anchor): everything up to the end of the enclosing block, statements included
                if j != n - 1:
                    ok = False; break
                depth = 0
                q = p
                while q < len(idx):
                    tx = toks[idx[q]].text
                    if tx in OPENB: depth += 1
                    elif tx in CLOSEB:
                        depth -= 1
                        if depth < 0: break
                    q += 1
                if q == p or q >= len(idx):
                    ok = False; break
                p = q
                j += 1
                continue
            m = re.fullmatch(r"__VXW_(\d+)__", a[j])
            if m:
                if j + 1 >= n:
                    ok = False; break
                nxt = a[j + 1]
                if nxt == "__VXBLOCK__":
                    nxt = "{"
                depth = 0
                q = p
                found = False
                while q < len(idx):
                    tx = toks[idx[q]].text
                    if depth == 0 and tx == nxt and q > p:
                        found = True; break
                    if tx in OPENB: depth += 1
                    elif tx in CLOSEB:
                        depth -= 1
                        if depth < 0: break
                    elif depth == 0 and tx in (";",):
                        break
                    q += 1
                if not found:
                    ok = False; break
                caps[int(m.group(1))] = (idx[p], idx[q - 1])
                p = q
                j += 1
                continue
            if toks[idx[p]].text != a[j]:
                ok = False; break
            p += 1
            j += 1
        if ok and n > 0:
            out.append((idx[i], idx[p - 1], caps))
    return out


def rewrite_text(text, rewrites):
    """apply the function's other text rewrites inside a captured argument (they would otherwise be swallowed by
    the enclosing replacement)"""
    for _rule, o, n in rewrites:
        tk = tokenize(text)
        occ = find_subseq_w(tk, 0, len(tk), o)
        if not occ:
            continue
        out = []
        cur = 0
        for a, b, caps in occ:
            if tk[a].pos < cur:
                continue
            out.append(text[cur:tk[a].pos])
            rep = n
            for k, (ca, cb) in caps.items():
                rep = rep.replace(f"${k}", text[tk[ca].pos:tk[cb].end])
            out.append(rep)
            cur = tk[b].end
        out.append(text[cur:])
        text = "".join(out)
    return text


def subst_caps(new, caps, toks, src, others=()):
    for k, (a, b) in caps.items():
        new = new.replace(f"${k}", rewrite_text(src[toks[a].pos:toks[b].end], others))
    return new



def pat_shape(key):
    """a closure-parameter key with the names removed: '( _ , len , p )' -> '(,,)'"""
    return re.sub(r"[^(),]", "", key)


def align_closures(fs, toks, cl, src):
    """expected ordinal -> (actual index, header, raw) for the annotated closures of a function.
    Positional first: if every annotated closure sits at its ordinal with the listed key, or with a key for which an
    `alt` annotation exists, that annotation is used.  Otherwise the keys are aligned as sequences (difflib)."""
    ann = {}
    if fs.closure_keys is None:
        for n, (hdr, raw) in fs.closures.items():
            if n - 1 < len(cl):
                ann[n] = (n - 1, hdr, raw)
        return ann
    actual = [norm(closure_key(toks, c, src)) for c in cl]
    exp = [norm(k) for k in fs.closure_keys]
    def callee(c):
        # the method / function the closure is an argument of: `X.map(|..| ..)` -> "map"
        k = prev_sig_idx(toks, c.bar1 - 1)
        while k >= 0 and not (toks[k].kind == "punct" and toks[k].text == "("):
            if toks[k].kind == "punct" and toks[k].text in (";", "{", "}"):
                return ""
            k = prev_sig_idx(toks, k - 1)
        k = prev_sig_idx(toks, k - 1) if k >= 0 else -1
        return toks[k].text if k >= 0 and toks[k].kind == "ident" else ""
    if len(actual) == len(exp):
        ok = True
        for n, (hdr, raw) in fs.closures.items():
            if n - 1 >= len(actual):
                ok = False; break
            mk = norm(callee(cl[n - 1]) + " : " + actual[n - 1])
            if mk in fs.closure_alts.get(n, {}):
                # `alt "method : key"`: the closure is passed to another method than the one the default annotation fits
                h2, r2 = fs.closure_alts[n][mk]
                ann[n] = (n - 1, h2, r2)
            elif actual[n - 1] == exp[n - 1]:
                ann[n] = (n - 1, hdr, raw)
            elif actual[n - 1] in fs.closure_alts.get(n, {}):
                h2, r2 = fs.closure_alts[n][actual[n - 1]]
                ann[n] = (n - 1, h2, r2)
            elif re.search(r"\bas\s+\(", hdr) and pat_shape(actual[n - 1]) == pat_shape(exp[n - 1]) and "(" in actual[n - 1]:
                # a tuple pattern whose bindings were renamed (`(_, len, p)` -> `(_, _, p)`): the annotation speaks about the
                # tuple's components, not about the names, so it still applies — with the closure's own pattern
                h2 = re.sub(r"\bas\s+\(.*\)(\s*\)\s*->)", lambda m_: "as " + actual[n - 1] + m_.group(1), hdr, count=1)
                ann[n] = (n - 1, h2, raw)
            else:
                ok = False; break
        if ok:
            return ann
    import difflib
    ann = {}
    sm = difflib.SequenceMatcher(a=exp, b=actual, autojunk=False)
    for blk in sm.get_matching_blocks():
        for d in range(blk.size):
            n = blk.a + d + 1
            if n in fs.closures:
                ann[n] = (blk.b + d, fs.closures[n][0], fs.closures[n][1])
    return ann


def closure_key(toks, c, src):
    """parameter names of a closure (types dropped), e.g. 'a', '( f , m )', '' for ||"""
    if c.bar1 == c.bar2:
        return ""
    out = []
    depth = 0
    skip = False
    for k in range(c.bar1 + 1, c.bar2):
        t = toks[k]
        if t.kind in ("ws", "comment"):
            continue
        if t.kind == "punct" and t.text in ("(", "[", "<"):
            depth += 1
        elif t.kind == "punct" and t.text in (")", "]", ">"):
            depth -= 1
        if depth == 0 and t.kind == "punct" and t.text == ":":
            skip = True
            continue
        if depth == 0 and t.kind == "punct" and t.text == ",":
            skip = False
        if not skip:
            out.append(t.text)
    return " ".join(out)


class Edits:
    def __init__(self, src):
        self.src = src
        self.edits = []   # (start, end, text, prio)

    def insert(self, pos, text, prio=0):
        self.edits.append((pos, pos, text, prio))

    def replace(self, start, end, text):
        self.edits.append((start, end, text, 0))

    def apply(self):
        # stable: inserts at same position keep the order given by prio then registration order
        eds = sorted(enumerate(self.edits), key=lambda e: (e[1][0], 0 if e[1][0] == e[1][1] else 1, e[1][3], e[0]))
        out = []
        cur = 0
        # an edit that lies inside a region replaced by a larger edit is subsumed by it
        spans = [(s, e) for _, (s, e, t, _p) in eds if e > s]
        def subsumed(s, e):
            if s == e:
                return any(a < s < b for a, b in spans)
            return any(a <= s and e <= b and (a, b) != (s, e) for a, b in spans)
        self.dropped = [x[1] for x in eds if subsumed(x[1][0], x[1][1])]
        eds = [x for x in eds if not subsumed(x[1][0], x[1][1])]
        for _, (s, e, t, _p) in eds:
            if s < cur:
                raise SystemExit("overlapping edits at offset %d: %r" % (s, t[:60]))
            out.append(self.src[cur:s]); out.append(t); cur = e
        out.append(self.src[cur:])
        return "".join(out)


def prev_sig_idx(toks, k):
    while k >= 0 and toks[k].kind in ("ws", "comment"):
        k -= 1
    return k


def split_sections(raw):
    """split raw contract lines into (requires_lines, other_lines) by leading keyword"""
    req, rest = [], []
    cur = None
    for l in raw:
        s = l.strip()
        m = re.match(r"(requires|ensures|decreases|recommends|returns|opens_invariants|no_unwind)\b", s)
        if m:
            cur = m.group(1)
        (req if cur == "requires" else rest).append(l)
    return req, rest


# ------------------------------------------------------------------ generation

EXTCONSTS = []
CONSTMOD = "crate::vx_prelude"
UNIT = None


def extconst_name(path):
    return "vx_c_" + re.sub(r"[^A-Za-z0-9]+", "_", path)


def process_fn(toks, it, fs: FnSpec, qual, ed: Edits, log, unit_in_trait_impl):
    """register edits for one function item `it` (an Item of kind fn)"""
    src = ed.src
    sg = parse_fn_sig(toks, it)
    fn_text = src[toks[it.first].pos:toks[it.last].end]
    log["functions"].append({
        "fn": qual, "mode": fs.mode,
        "sha256": hashlib.sha256(fn_text.encode()).hexdigest(),
        "lines": [src.count("\n", 0, toks[it.first].pos) + 1, src.count("\n", 0, toks[it.last].end) + 1],
    })
    start_pos = toks[it.first].pos
    # attributes go right before the item (after doc comments is not needed: before everything works)
    pre = f"/*@vx:begin {qual}*/ "
    pre_attrs = ""
    if fs.mode == "trusted":
        pre_attrs += "#[verifier::external_body] "
    for a in fs.attrs:
        pre_attrs += a + " "
    ed.insert(start_pos, pre, prio=5)
    if pre_attrs:
        ed.insert(start_pos, pre_attrs, prio=9.5)     # after a `verus! {` opened at the same position, before `pub`
    ed.insert(toks[it.last].end, f" /*@vx:end {qual}*/", prio=-5)
    # named return value
    if sg.arrow >= 0 and fs.ret != "-":
        ed.insert(toks[sg.ret_first].pos, f"({fs.ret}: ")
        ed.insert(toks[sg.ret_last].end, ")")
    # contract
    contract = "\n".join(fs.contract)
    if contract.strip():
        ed.insert(toks[sg.body_open].pos, "\n" + contract + "\n", prio=1)
    if fs.mode == "trusted":
        return
    lo, hi = it.body_open + 1, it.body_close
    # closures
    if fs.closures:
        cl = find_closures(toks, lo, hi)
        ann = align_closures(fs, toks, cl, src)
        for n in sorted(fs.closures):
            if n not in ann:
                # the annotated closure is gone (deleted or its parameters renamed): the annotation is dropped;
                # a pure deletion does not weaken the proof of what remains, a rename does
                exp = len(fs.closure_keys) if fs.closure_keys is not None else n
                log.setdefault("lost_closures", []).append({"fn": qual, "closure": n, "degrades_proof": len(cl) >= exp})
                if fs.closure_keys is None:
                    raise LostAnchor(f"{qual}: closure {n} not found ({len(cl)} closures)")
                continue
            ai, hdr, raw = ann[n]
            if hdr is not fs.closures[n][0]:
                log["rewrites"].append({"rule": "RC-alt", "fn": qual, "before": f"closure {n}", "after": hdr, "note": "alternative annotation selected by parameter key"})
            c = cl[ai]
            # hdr: "(o: &Output) -> (b: bool)"  => |o: &Output| -> (b: bool)
            depth = 0
            endp = -1
            for ix, ch in enumerate(hdr):
                if ch == "(": depth += 1
                elif ch == ")":
                    depth -= 1
                    if depth == 0:
                        endp = ix; break
            if endp < 0 or not hdr.startswith("("):
                raise SystemExit(f"{qual}: bad closure header {hdr!r}")
            params = hdr[1:endp]
            tail = hdr[endp + 1:].strip()
            ret = tail[2:].strip() if tail.startswith("->") else None
            # "(name: Type as PATTERN)": the original parameter was a pattern (R3): bind it inside the body
            rc_lets = []
            mm = re.match(r"^\s*(\w+)\s*:\s*(.*?)\s+as\s+(.+)$", params)
            if mm:
                params = f"{mm.group(1)}: {mm.group(2)}"
                pat = mm.group(3).strip()
                if re.match(r"^&\s*\w+$", pat):
                    # `|&x|`: Verus has no reference patterns; binding through a dereference is the same thing
                    rc_lets.append(f"let {pat[1:].strip()} = *{mm.group(1)};")
                else:
                    rc_lets.append(f"let {pat} = {mm.group(1)};")
            head = "|" + params + "|" + (f" -> {ret}" if ret else "")
            spec = ("\n" + "\n".join(raw) + "\n") if raw else " "
            old = src[toks[c.bar1].pos:toks[c.bar2].end]
            if c.block:
                # up to the body's `{`: a return type written in the source is replaced by the annotated (named) one
                ed.replace(toks[c.bar1].pos, toks[c.body_first].pos, head + spec)
                if rc_lets:
                    ed.insert(toks[c.body_first].end, " " + " ".join(rc_lets), prio=-8)
            else:
                ed.replace(toks[c.bar1].pos, toks[c.bar2].end, head + spec + "{ " + " ".join(rc_lets) + " ")
                ed.insert(toks[c.body_last].end, " }", prio=-9)
            log["rewrites"].append({"rule": "RC", "fn": qual, "before": old, "after": head,
                                    "note": "closure parameter types / named result / contract added; body kept verbatim"})
    # R13 (automatic, unit-level list): field read through a type kept outside Verus:  RECV.owner.field -> helper(&RECV.owner)
    if UNIT is not None and UNIT.fieldshims:
        sgi = [k for k in range(lo, hi) if toks[k].kind not in ("ws", "comment")]
        for owner, fld, helper in UNIT.fieldshims:
            cnt = 0
            for ii in range(len(sgi) - 3):
                a, b, c2, d = (toks[sgi[ii + x]] for x in range(4))
                if a.text == "." and b.kind == "ident" and b.text == owner and c2.text == "." and d.kind == "ident" and d.text == fld:
                    nxt = toks[sgi[ii + 4]] if ii + 4 < len(sgi) else None
                    if nxt is not None and nxt.text == "(":
                        continue  # a method call, not a field
                    jj = ii - 1
                    if jj < 0 or toks[sgi[jj]].kind != "ident":
                        continue
                    while jj - 2 >= 0 and toks[sgi[jj - 1]].text == "." and toks[sgi[jj - 2]].kind == "ident":
                        jj -= 2
                    recv = src[toks[sgi[jj]].pos:toks[sgi[ii + 1]].end]
                    ed.replace(toks[sgi[jj]].pos, toks[sgi[ii + 3]].end, f"{helper}(&{recv})")
                    cnt += 1
            # bare `owner.field` (the owner is a local / parameter)
            for ii in range(len(sgi) - 2):
                a, b, c2 = (toks[sgi[ii + x]] for x in range(3))
                prev = toks[sgi[ii - 1]] if ii > 0 else None
                if a.kind == "ident" and a.text == owner and b.text == "." and c2.kind == "ident" and c2.text == fld \
                        and (prev is None or prev.text != "."):
                    nxt = toks[sgi[ii + 3]] if ii + 3 < len(sgi) else None
                    if nxt is not None and nxt.text == "(":
                        continue
                    ed.replace(a.pos, c2.end, f"{helper}(&{owner})")
                    cnt += 1
            if cnt:
                log["rewrites"].append({"rule": "R13", "fn": qual, "before": f"X.{owner}.{fld}", "after": f"{helper}(&X.{owner})", "count": cnt})
    # R8 (automatic): let-chains  `if A && let P = E && B { body }`  (no else)  ->  nested ifs, Rust's own desugaring
    k = lo
    while k < hi:
        t = toks[k]
        if t.kind == "ident" and t.text == "if":
            # condition tokens up to the body '{' at depth 0
            j = k + 1
            ands = []
            has_let = False
            body_open = None
            while j < hi:
                tj = toks[j]
                if tj.kind in ("ws", "comment"):
                    j += 1
                    continue
                if tj.kind == "punct" and tj.text in ("(", "["):
                    j = match_close(toks, j) + 1
                    continue
                if tj.kind == "ident" and tj.text == "let":
                    has_let = True
                if tj.kind == "punct" and tj.text == "&&":
                    ands.append(j)
                    j += 1
                    continue
                if tj.kind == "punct" and tj.text == "||":
                    ands = []
                    has_let = False
                    break
                if tj.kind == "punct" and tj.text == "{":
                    # struct literals are not allowed unparenthesised in conditions: this is the body
                    body_open = j
                    break
                if tj.kind == "punct" and tj.text in (";", "}"):
                    break
                j += 1
            if body_open is not None and has_let and ands:
                body_close = match_close(toks, body_open)
                nx = next_sig(toks, body_close + 1, hi)
                if nx is not None and toks[nx].kind == "ident" and toks[nx].text == "else":
                    raise LostAnchor(f"{qual}: R8: let-chain with else is not supported")
                for a in ands:
                    ed.replace(toks[a].pos, toks[a].end, "{ if")
                ed.insert(toks[body_close].end, " }" * len(ands), prio=-7)
                log["rewrites"].append({"rule": "R8", "fn": qual, "before": "if A && let P = E && B { .. }",
                                        "after": "if A { if let P = E { if B { .. } } }", "count": len(ands)})
                k = body_open
        k += 1
    # R15 (automatic, before R10): matches!(E, C1 | C2 | ..) whose alternatives are all listed constants
    #      ->  { let __vxm = E; __vxm == C1 || __vxm == C2 || .. }   (constants cannot be patterns once they are calls)
    if EXTCONSTS:
        cnames = {" ".join(t.text for t in tokenize(c[0]) if t.kind not in ("ws", "comment")) for c in EXTCONSTS}
        k = lo
        while k < hi:
            t = toks[k]
            if t.kind == "ident" and t.text == "matches":
                n1 = next_sig(toks, k + 1, hi)
                n2 = next_sig(toks, n1 + 1, hi) if n1 is not None else None
                if n1 is not None and toks[n1].text == "!" and n2 is not None and toks[n2].text == "(":
                    close = match_close(toks, n2)
                    # split "E , alternatives" at the first depth-0 comma
                    j = n2 + 1
                    comma = None
                    while j < close:
                        tj = toks[j]
                        if tj.kind == "punct" and tj.text in ("(", "[", "{"):
                            j = match_close(toks, j)
                        elif tj.kind == "punct" and tj.text == ",":
                            comma = j
                            break
                        j += 1
                    if comma is not None:
                        alts_txt = src[toks[comma].end:toks[close].pos]
                        alts = [" ".join(x.text for x in tokenize(a) if x.kind not in ("ws", "comment")) for a in alts_txt.split("|")]
                        alts = [a for a in alts if a]
                        # `matches!(r, &C1 | &C2)` on a reference: compare the referent
                        deref = bool(alts) and all(a.startswith("& ") for a in alts)
                        if deref:
                            alts = [a[2:] for a in alts]
                        if alts and all(a in cnames for a in alts):
                            e_txt = src[toks[n2].end:toks[comma].pos].strip()
                            if deref:
                                e_txt = "*(" + e_txt + ")"
                            cmap = {" ".join(t.text for t in tokenize(c[0]) if t.kind not in ("ws", "comment")):
                                    CONSTMOD + "::" + extconst_name(c[0]) + "()" for c in EXTCONSTS}
                            new = "({ let __vxm = " + e_txt + "; " + " || ".join(f"__vxm == {cmap[a]}" for a in alts) + " })"
                            ed.replace(toks[k].pos, toks[close].end, new)
                            log["rewrites"].append({"rule": "R15", "fn": qual, "before": src[toks[k].pos:toks[close].end][:120],
                                                    "after": "disjunction of == on the listed constants"})
                            k = close
            k += 1
    # R10 (automatic): associated constants of external types -> generated const fn with the value as contract
    for cpath, cty, cval, _real in EXTCONSTS:
        occ = find_subseq(toks, lo, hi, cpath)
        for a, b in occ:
            pv = a - 1
            while pv >= lo and toks[pv].kind in ("ws", "comment"):
                pv -= 1
            if toks[pv].kind == "punct" and toks[pv].text == "::":
                continue  # part of a longer path
            nx_ = next_sig(toks, b + 1, hi)
            # pattern position (anywhere inside a match-arm pattern, e.g. `(C, 4) => ..`): an integer constant with a
            # known value is replaced by that literal (R10 checks `C == value` at compile time)
            if cval != "-":
                q_ = b + 1
                in_pat = False
                while q_ < hi:
                    tq = toks[q_]
                    if tq.kind == "punct" and tq.text == "=>":
                        in_pat = True; break
                    if tq.kind == "punct" and tq.text in (";", "{", "}", "="):
                        break
                    if tq.kind == "punct" and tq.text in ("(", "["):
                        q_ = match_close(toks, q_)
                    q_ += 1
                if in_pat:
                    ed.replace(toks[a].pos, toks[b].end, cval)
                    continue
            if nx_ is not None and toks[nx_].text == "=>" and toks[pv].kind == "punct" and toks[pv].text in ("{", ",", "}"):
                # a constant used as a match-arm pattern: `C => e`  ->  `__vxc if __vxc == C() => e`
                ed.replace(toks[a].pos, toks[b].end, "__vxc if __vxc == " + CONSTMOD + "::" + extconst_name(cpath) + "()")
                continue
            ed.replace(toks[a].pos, toks[b].end, CONSTMOD + "::" + extconst_name(cpath) + "()")
        if occ:
            log["rewrites"].append({"rule": "R10", "fn": qual, "before": cpath, "after": extconst_name(cpath) + "()", "count": len(occ)})
    # R3 (automatic): closure parameters that are patterns / `_`
    cl_all = find_closures(toks, lo, hi)
    annotated_actual = set()
    if fs.closures:
        annotated_actual = {ai + 1 for (ai, _h, _r) in align_closures(fs, toks, cl_all, src).values()}
    for ci, c in enumerate(cl_all, 1):
        if ci in annotated_actual or c.bar1 == c.bar2:
            continue
        # split params at top-level commas
        params = []
        cur = []
        k = c.bar1 + 1
        while k < c.bar2:
            t = toks[k]
            if t.kind == "punct" and t.text in ("(", "[", "{"):
                m2 = match_close(toks, k)
                cur.extend(range(k, m2 + 1)); k = m2 + 1; continue
            if t.kind == "punct" and t.text == ",":
                params.append(cur); cur = []
            else:
                cur.append(k)
            k += 1
        if cur:
            params.append(cur)
        lets = []
        newparams = []
        changed = False
        for pi, pr in enumerate(params):
            sigp = [x for x in pr if toks[x].kind not in ("ws", "comment")]
            if not sigp:
                continue
            # pattern part = up to a top-level ':'
            colon = None
            for x in sigp:
                if toks[x].kind == "punct" and toks[x].text == ":":
                    colon = x; break
            pat = [x for x in sigp if colon is None or x < colon]
            ty = "" if colon is None else src[toks[colon].pos:toks[sigp[-1]].end]
            pat_txt = src[toks[pat[0]].pos:toks[pat[-1]].end]
            simple = (len(pat) == 1 and toks[pat[0]].kind == "ident" and toks[pat[0]].text != "_") or \
                     (len(pat) == 2 and toks[pat[0]].text == "mut" and toks[pat[1]].kind == "ident")
            if simple:
                newparams.append(pat_txt + ty)
            else:
                changed = True
                nm = f"__vxp{ci}_{pi}"
                newparams.append(nm + ty)
                if pat_txt != "_":
                    if pat_txt.startswith("&") and not pat_txt.startswith("&&"):
                        lets.append(f"let {pat_txt[1:].strip()} = *{nm};")
                    else:
                        lets.append(f"let {pat_txt} = {nm};")
        if changed:
            old = src[toks[c.bar1].pos:toks[c.bar2].end]
            new_head = "|" + ", ".join(newparams) + "|"
            if c.block:
                ed.replace(toks[c.bar1].pos, toks[c.bar2].end, new_head)
                ed.insert(toks[c.body_first].end, " " + " ".join(lets), prio=-8)
            else:
                ed.replace(toks[c.bar1].pos, toks[c.bar2].end, new_head + " { " + " ".join(lets) + " ")
                ed.insert(toks[c.body_last].end, " }", prio=-9)
            log["rewrites"].append({"rule": "R3", "fn": qual, "before": old, "after": new_head + " { " + " ".join(lets) + " … }"})
    # R9 (listed identifiers): explicit deref of a reference operand of a bit operator
    for ident, op in fs.derefs:
        cnt = 0
        for k in range(lo, hi):
            t = toks[k]
            if t.kind == "ident" and t.text == ident:
                nx = next_sig(toks, k + 1, hi)
                pv = k - 1
                while pv >= lo and toks[pv].kind in ("ws", "comment"):
                    pv -= 1
                if nx is not None and toks[nx].kind == "punct" and toks[nx].text == op and toks[pv].text not in ("*", ".", "&"):
                    nn = next_sig(toks, nx + 1, hi)
                    # binary use only: the operator must be followed by an operand
                    ed.insert(t.pos, "*")
                    cnt += 1
        if cnt == 0:
            raise LostAnchor(f"{qual}: deref {ident} {op}: no occurrence")
        log["rewrites"].append({"rule": "R9", "fn": qual, "before": f"{ident} {op} …", "after": f"*{ident} {op} …", "count": cnt})
    # R18 (listed variables): `&X[a..b]`, `&X[..b]`, `&X[a..]`  ->  vx_slice(X, a, b) / vx_slice_to(X, b) / vx_slice_from(X, a)
    # (Verus has no range indexing on slices; the helpers' `requires a <= b <= len` is Rust's bounds check)
    if fs.slices:
        cnt18 = 0
        sg18 = [k for k in range(lo, hi) if toks[k].kind not in ("ws", "comment")]
        for ii in range(len(sg18) - 3):
            t0, t1, t2 = toks[sg18[ii]], toks[sg18[ii + 1]], toks[sg18[ii + 2]]
            if not (t0.kind == "punct" and t0.text == "&" and t1.kind == "ident" and t1.text in fs.slices and t2.text == "["):
                continue
            pvk = sg18[ii - 1] if ii > 0 else None
            if pvk is not None and toks[pvk].kind == "punct" and toks[pvk].text == ".":
                continue
            close = match_close(toks, sg18[ii + 2])
            # top-level `..` inside the brackets
            dd = None
            q = sg18[ii + 2] + 1
            while q < close:
                tq = toks[q]
                if tq.kind == "punct" and tq.text in ("(", "[", "{"):
                    q = match_close(toks, q)
                elif tq.kind == "punct" and tq.text in ("..", "..="):
                    dd = q; break
                q += 1
            if dd is None or toks[dd].text == "..=":
                continue
            has_a = next_sig(toks, sg18[ii + 2] + 1, dd) is not None
            has_b = next_sig(toks, dd + 1, close) is not None
            kind = fs.slices[t1.text]
            x = {"s": t1.text, "v": t1.text + ".as_slice()", "a": "&" + t1.text}[kind]
            if has_a and has_b:
                ed.replace(t0.pos, toks[sg18[ii + 2]].end, f"vx_slice({x}, ")
                ed.replace(toks[dd].pos, toks[dd].end, ", ")
            elif has_b:
                ed.replace(t0.pos, toks[dd].end, f"vx_slice_to({x}, ")
            elif has_a:
                ed.replace(t0.pos, toks[sg18[ii + 2]].end, f"vx_slice_from({x}, ")
                ed.replace(toks[dd].pos, toks[dd].end, "")
            else:
                ed.replace(t0.pos, toks[dd].end, f"vx_slice_from({x}, 0")
            ed.replace(toks[close].pos, toks[close].end, ")")
            cnt18 += 1
        log["rewrites"].append({"rule": "R18", "fn": qual, "before": "&X[a..b]", "after": "vx_slice(X, a, b)", "count": cnt18})
    # R17 (automatic): `for .. { if C { S; continue; } REST }`  ->  `for .. { if C { S; } else { REST } }`
    # (Verus's for loops have no `continue`; the two forms are the same control flow).  `continue` in while / loop is
    # supported by Verus and left alone.
    _lps17 = None
    for k in range(lo, hi):
        t = toks[k]
        if not (t.kind == "ident" and t.text == "continue"):
            continue
        if _lps17 is None:
            _lps17 = [(l.body_open, match_close(toks, l.body_open), l.kind) for l in find_loops(toks, lo, hi)]
        inner = None
        for (bo, bc, kind) in _lps17:
            if bo < k < bc and (inner is None or bo > inner[0]):
                inner = (bo, bc, kind)
        if inner is None or inner[2] != "for":
            continue
        semi = next_sig(toks, k + 1, hi)
        if semi is None or toks[semi].text != ";":
            raise LostAnchor(f"{qual}: R17: unsupported `continue` form in a for loop")
        ifclose = next_sig(toks, semi + 1, hi)
        if ifclose is None or toks[ifclose].text != "}":
            raise LostAnchor(f"{qual}: R17: `continue` is not the last statement of its block")
        depth = 0
        ifopen = None
        for q in range(ifclose, lo - 1, -1):
            if toks[q].kind == "punct" and toks[q].text == "}": depth += 1
            elif toks[q].kind == "punct" and toks[q].text == "{":
                depth -= 1
                if depth == 0:
                    ifopen = q; break
        after = next_sig(toks, ifclose + 1, hi)
        pe = prev_sig_idx(toks, ifopen - 1) if ifopen is not None else -1
        if ifopen is not None and pe >= 0 and toks[pe].kind == "ident" and toks[pe].text == "else" \
                and next_sig(toks, ifopen + 1, hi) == k and after is not None and toks[after].text == ";":
            # `let PAT = E else { continue; }; REST`  ->  `if let PAT = E { REST }`   (same control flow in a for body)
            q = pe - 1
            depth = 0
            let_tok = None
            while q > inner[0]:
                tq = toks[q]
                if tq.kind == "punct" and tq.text in (")", "]", "}"): depth += 1
                elif tq.kind == "punct" and tq.text in ("(", "[", "{"):
                    if depth == 0: break
                    depth -= 1
                elif tq.kind == "punct" and tq.text == ";" and depth == 0:
                    break
                q -= 1
            first = next_sig(toks, q + 1, hi)
            if first is None or toks[first].text != "let":
                raise LostAnchor(f"{qual}: R17: unsupported `let .. else {{ continue }}` shape")
            # the let must sit directly in the for body
            depth = 0
            for q2 in range(inner[0] + 1, first):
                if toks[q2].kind == "punct" and toks[q2].text == "{": depth += 1
                elif toks[q2].kind == "punct" and toks[q2].text == "}": depth -= 1
            if depth != 0:
                raise LostAnchor(f"{qual}: R17: `let .. else {{ continue }}` nested deeper than the for body")
            ed.insert(toks[first].pos, "if ", prio=-2)
            ed.replace(toks[pe].pos, toks[after].end, "{")
            ed.insert(toks[inner[1]].pos, "} ", prio=2)
            log["rewrites"].append({"rule": "R17", "fn": qual, "before": "let P = E else { continue; }; REST", "after": "if let P = E { REST }", "count": 1})
            continue
        if ifopen is None or (after is not None and toks[after].text == "else"):
            raise LostAnchor(f"{qual}: R17: unsupported shape around `continue`")
        # the if must sit directly in the for body
        depth = 0
        for q in range(inner[0] + 1, ifopen):
            if toks[q].kind == "punct" and toks[q].text == "{": depth += 1
            elif toks[q].kind == "punct" and toks[q].text == "}": depth -= 1
        if depth != 0:
            raise LostAnchor(f"{qual}: R17: `continue` nested deeper than an `if` directly in the for body")
        ed.replace(toks[k].pos, toks[semi].end, "")
        ed.insert(toks[ifclose].end, " else {", prio=-2)
        ed.insert(toks[inner[1]].pos, "} ", prio=2)
        log["rewrites"].append({"rule": "R17", "fn": qual, "before": "if C { S; continue; } REST", "after": "if C { S; } else { REST }", "count": 1})
    # R16: X.is_some_and(|p| BODY) -> (match X { Some(p) => BODY, None => false })   [closures that capture `&mut`
    # state are outside Verus's dialect; the match is what Option::is_some_and is defined to do]
    if getattr(fs, "r16", False):
        cnt16 = 0
        sgi = [k for k in range(lo, hi) if toks[k].kind not in ("ws", "comment")]
        for ii in range(len(sgi) - 7):
            seq = [toks[sgi[ii + d]].text for d in range(4)]
            if seq != [".", "is_some_and", "(", "|"]:
                continue
            if toks[sgi[ii + 4]].kind != "ident" or toks[sgi[ii + 5]].text != "|":
                continue
            # receiver: a postfix chain of identifiers, field accesses and calls (`self.families.get(family)`)
            jj = ii - 1
            ok_recv = True
            while True:
                if jj < 0:
                    ok_recv = False; break
                tj = toks[sgi[jj]]
                if tj.kind == "punct" and tj.text == ")":
                    depth = 0
                    while jj >= 0:
                        tx = toks[sgi[jj]].text
                        if tx == ")": depth += 1
                        elif tx == "(":
                            depth -= 1
                            if depth == 0: break
                        jj -= 1
                    jj -= 1          # the callee name before `(`
                    if jj < 0 or toks[sgi[jj]].kind != "ident":
                        ok_recv = False; break
                elif tj.kind != "ident":
                    ok_recv = False; break
                if jj - 1 >= 0 and toks[sgi[jj - 1]].text == ".":
                    jj -= 2
                    continue
                break
            if not ok_recv:
                continue
            recv = src[toks[sgi[jj]].pos:toks[sgi[ii - 1]].end]
            open_paren = sgi[ii + 2]
            close_paren = match_close(toks, open_paren)
            # no `return` directly in the body (it would leave the closure, not the function)
            body_toks = [toks[q].text for q in range(sgi[ii + 5] + 1, close_paren) if toks[q].kind == "ident"]
            if "return" in body_toks:
                raise LostAnchor(f"{qual}: R16: `return` inside an is_some_and closure")
            ed.replace(toks[sgi[jj]].pos, toks[sgi[ii + 5]].end, f"(match {recv} {{ Some({toks[sgi[ii + 4]].text}) => ")
            ed.replace(toks[close_paren].pos, toks[close_paren].end, ", None => false })")
            cnt16 += 1
        if cnt16 == 0:
            raise LostAnchor(f"{qual}: R16: no `.is_some_and(|x| ..)` found")
        log["rewrites"].append({"rule": "R16", "fn": qual, "before": "X.is_some_and(|p| BODY)", "after": "(match X { Some(p) => BODY, None => false })", "count": cnt16})
    # R12: X.iter().any(c) -> vx_any(X.as_slice(), c)
    if fs.r12:
        cnt = 0
        sg_idx = [k for k in range(lo, hi) if toks[k].kind not in ("ws", "comment")]
        for ii in range(len(sg_idx) - 6):
            seq = [toks[sg_idx[ii + d]].text for d in range(7)]
            if seq in ([".", "iter", "(", ")", ".", "any", "("], [".", "iter", "(", ")", ".", "find", "("], [".", "iter", "(", ")", ".", "all", "("]):
                helper12 = {"any": "vx_any", "find": "vx_find", "all": "vx_all"}[seq[5]]
                # receiver: ident (. ident)* ending right before sg_idx[ii]
                jj = ii - 1
                if jj < 0 or toks[sg_idx[jj]].kind != "ident":
                    raise LostAnchor(f"{qual}: R12: unsupported receiver before .iter().any(")
                while jj - 2 >= 0 and toks[sg_idx[jj - 1]].text == "." and toks[sg_idx[jj - 2]].kind == "ident":
                    jj -= 2
                recv = src[toks[sg_idx[jj]].pos:toks[sg_idx[ii - 1]].end]
                as_slice = "" if fs.r12map.get(recv.replace(" ", "")) == "slice" else ".as_slice()"
                ed.replace(toks[sg_idx[jj]].pos, toks[sg_idx[ii + 6]].end, f"{helper12}({recv}{as_slice}, ")
                cnt += 1
        # R12c: X.iter().<adapters>.collect() -> vx_iter_<adapters>_collect(X.as_slice(), closures…)
        ADAPT = {"filter": "filter", "map": "map", "filter_map": "filtermap", "cloned": "cloned", "copied": "copied", "take": "take"}
        for ii in range(len(sg_idx) - 4):
            if [toks[sg_idx[ii + d]].text for d in range(4)] != [".", "iter", "(", ")"]:
                continue
            jj = ii - 1
            if jj < 0 or toks[sg_idx[jj]].kind != "ident":
                continue
            while jj - 2 >= 0 and toks[sg_idx[jj - 1]].text == "." and toks[sg_idx[jj - 2]].kind == "ident":
                jj -= 2
            recv = src[toks[sg_idx[jj]].pos:toks[sg_idx[ii - 1]].end]
            chain = []      # (name, dot tok, open tok, close tok)
            k2 = next_sig(toks, sg_idx[ii + 3] + 1, hi)
            term = None
            while k2 is not None and toks[k2].text == ".":
                nm = next_sig(toks, k2 + 1, hi)
                if nm is None or toks[nm].kind != "ident":
                    break
                op = next_sig(toks, nm + 1, hi)
                if toks[nm].text == "collect":
                    # optional turbofish
                    if op is not None and toks[op].text == "::":
                        lt = next_sig(toks, op + 1, hi)
                        depth = 0
                        q = lt
                        while q is not None:
                            if toks[q].text == "<": depth += 1
                            elif toks[q].text == ">": depth -= 1
                            elif toks[q].text == ">>": depth -= 2
                            if depth <= 0: break
                            q = next_sig(toks, q + 1, hi)
                        op = next_sig(toks, q + 1, hi)
                    if op is not None and toks[op].text == "(":
                        term = (k2, match_close(toks, op))
                    break
                if toks[nm].text not in ADAPT or op is None or toks[op].text != "(":
                    break
                cp = match_close(toks, op)
                chain.append((toks[nm].text, k2, op, cp))
                k2 = next_sig(toks, cp + 1, hi)
            if term is None or not chain:
                continue
            if [c[0] for c in chain] == ["filter", "map"]:
                margs = "".join(toks[q].text for q in range(chain[1][2] + 1, chain[1][3]) if toks[q].kind not in ("ws", "comment"))
                if re.fullmatch(r"\|\((\w+),(\w+)\)\|\(\*\1,\*\2\)", margs):
                    continue    # copying sub-map of a hash map: vx_hashmap_filter_copy below
            helper = "vx_iter_" + "_".join(ADAPT[c[0]] for c in chain) + "_collect"
            as_slice = "" if fs.r12map.get(recv.replace(" ", "")) == "slice" else ".as_slice()"
            ed.replace(toks[sg_idx[jj]].pos, toks[sg_idx[ii + 3]].end, f"{helper}({recv}{as_slice}")
            for (nm_, dot, op, cp) in chain:
                has_args = next_sig(toks, op + 1, hi) != cp
                if has_args:
                    ed.replace(toks[dot].pos, toks[op].end, ", ")
                    ed.replace(toks[cp].pos, toks[cp].end, "")
                else:
                    ed.replace(toks[dot].pos, toks[cp].end, "")
            extra = fs.r12args.get(helper)
            ed.replace(toks[term[0]].pos, toks[term[1]].end, (", " + extra if extra else "") + ")")
            log["rewrites"].append({"rule": "R12c", "fn": qual, "before": f"{recv}.iter()." + ".".join(c[0] + "(..)" for c in chain) + ".collect()",
                                    "after": f"{helper}({recv}{as_slice}, ..)"})
            cnt += 1
        # X.into_iter().filter(c).collect() -> vx_filter_collect(X, c)
        for ii in range(len(sg_idx) - 6):
            seq = [toks[sg_idx[ii + d]].text for d in range(7)]
            if seq == [".", "into_iter", "(", ")", ".", "filter", "("]:
                jj = ii - 1
                if jj < 0 or toks[sg_idx[jj]].kind != "ident":
                    raise LostAnchor(f"{qual}: R12: unsupported receiver before .into_iter().filter(")
                while jj - 2 >= 0 and toks[sg_idx[jj - 1]].text == "." and toks[sg_idx[jj - 2]].kind == "ident":
                    jj -= 2
                recv = src[toks[sg_idx[jj]].pos:toks[sg_idx[ii - 1]].end]
                open_paren = sg_idx[ii + 6]
                close_paren = match_close(toks, open_paren)
                a1 = next_sig(toks, close_paren + 1, hi)
                tail = []
                k2 = a1
                while k2 is not None and len(tail) < 4:
                    tail.append(k2)
                    k2 = next_sig(toks, k2 + 1, hi)
                if [toks[x].text for x in tail] != [".", "collect", "(", ")"]:
                    raise LostAnchor(f"{qual}: R12: .filter(..) not followed by .collect()")
                helper = fs.r12map.get(recv.replace(" ", ""), "vx_filter_collect")
                ed.replace(toks[sg_idx[jj]].pos, toks[open_paren].end, f"{helper}({recv}, ")
                ed.replace(toks[tail[0]].pos, toks[tail[3]].end, "")
                cnt += 1
        # X.iter().filter(c).map(|(k, v)| (*k, *v)).collect()  (copying sub-map) -> vx_hashmap_filter_copy(X, c)
        for ii in range(len(sg_idx) - 6):
            seq = [toks[sg_idx[ii + d]].text for d in range(7)]
            if seq == [".", "iter", "(", ")", ".", "filter", "("]:
                jj = ii - 1
                if jj < 0 or toks[sg_idx[jj]].kind != "ident":
                    continue
                while jj - 2 >= 0 and toks[sg_idx[jj - 1]].text == "." and toks[sg_idx[jj - 2]].kind == "ident":
                    jj -= 2
                recv = src[toks[sg_idx[jj]].pos:toks[sg_idx[ii - 1]].end]
                open_paren = sg_idx[ii + 6]
                close_paren = match_close(toks, open_paren)
                tail = []
                k2 = next_sig(toks, close_paren + 1, hi)
                while k2 is not None and len(tail) < 24:
                    tail.append(k2)
                    k2 = next_sig(toks, k2 + 1, hi)
                ttxt = [toks[x].text for x in tail]
                want = [".", "map", "(", "|", "(", None, ",", None, ")", "|", "(", "*", None, ",", "*", None, ")", ")", ".", "collect", "(", ")"]
                ok = len(ttxt) >= len(want) and all(w is None or w == t for w, t in zip(want, ttxt))
                if ok and ttxt[5] == ttxt[12] and ttxt[7] == ttxt[15]:
                    ed.replace(toks[sg_idx[jj]].pos, toks[open_paren].end, f"vx_hashmap_filter_copy({recv}, ")
                    ed.replace(toks[tail[0]].pos, toks[tail[len(want) - 1]].end, "")
                    cnt += 1
        # X.iter().take_while(c).collect() -> vx_take_while_collect(X.as_slice(), c)
        for ii in range(len(sg_idx) - 6):
            seq = [toks[sg_idx[ii + d]].text for d in range(7)]
            if seq == [".", "iter", "(", ")", ".", "take_while", "("]:
                jj = ii - 1
                if jj < 0 or toks[sg_idx[jj]].kind != "ident":
                    raise LostAnchor(f"{qual}: R12: unsupported receiver before .iter().take_while(")
                while jj - 2 >= 0 and toks[sg_idx[jj - 1]].text == "." and toks[sg_idx[jj - 2]].kind == "ident":
                    jj -= 2
                recv = src[toks[sg_idx[jj]].pos:toks[sg_idx[ii - 1]].end]
                open_paren = sg_idx[ii + 6]
                close_paren = match_close(toks, open_paren)
                tail = []
                k2 = next_sig(toks, close_paren + 1, hi)
                while k2 is not None and len(tail) < 4:
                    tail.append(k2)
                    k2 = next_sig(toks, k2 + 1, hi)
                if [toks[x].text for x in tail] != [".", "collect", "(", ")"]:
                    raise LostAnchor(f"{qual}: R12: .take_while(..) not followed by .collect()")
                ed.replace(toks[sg_idx[jj]].pos, toks[open_paren].end, f"vx_take_while_collect({recv}.as_slice(), ")
                ed.replace(toks[tail[0]].pos, toks[tail[3]].end, "")
                cnt += 1
        if cnt == 0:
            raise LostAnchor(f"{qual}: R12: no `.iter().any(` / `.into_iter().filter(..).collect()` found")
        log["rewrites"].append({"rule": "R12", "fn": qual, "before": "X.iter().any(c)", "after": "vx_any(X.as_slice(), c)", "count": cnt})
    # loops
    if fs.loops:
        lp = find_loops(toks, lo, hi)
        for n, lspec in sorted(fs.loops.items()):
            itname, raw = lspec[0], lspec[1]
            over = lspec[2] if len(lspec) > 2 else None
            pat = lspec[3] if len(lspec) > 3 else None
            if n > len(lp):
                if n in fs.opt_loops:
                    log.setdefault("skipped_loops", []).append({"fn": qual, "loop": n, "reason": f"the function has {len(lp)} loops; the optional annotation is skipped"})
                    continue
                raise LostAnchor(f"{qual}: loop {n} not found ({len(lp)} loops)")
            l = lp[n - 1]
            if itname:
                if l.in_kw < 0:
                    raise LostAnchor(f"{qual}: loop {n} is not a for loop")
                ed.insert(toks[l.in_kw].end, f" {itname}:")
            if pat:
                # the loop pattern changes with the outlined iterable (e.g. `&pid` over a set iterator -> `pid` over a Vec)
                a = next_sig(toks, l.kw + 1, l.in_kw)
                b = prev_sig_idx(toks, l.in_kw - 1)
                ed.replace(toks[a].pos, toks[b].end, pat)
            if over:
                # R11 on the iterable of a for loop: the expression between `in` and the body is outlined
                a = next_sig(toks, l.in_kw + 1, l.body_open)
                b = prev_sig_idx(toks, l.body_open - 1)
                old_txt = src[toks[a].pos:toks[b].end]
                ed.replace(toks[a].pos, toks[b].end, over)
                log["rewrites"].append({"rule": "R11", "fn": qual, "before": f"for .. in {old_txt}", "after": f"for .. in {over}", "count": 1})
            ed.insert(toks[l.body_open].pos, "\n" + "\n".join(raw) + "\n", prio=1)
    # rewrites inside the function
    for rule, old, new in fs.rewrites:
        occ = find_subseq_w(toks, it.kw, it.last + 1, old)
        if not occ:
            if rule.endswith("?"):
                # optional rewrite (`rewrite R11? …`): the construct it outlines is one of several shapes the code may
                # take; when it is absent the function is verified as written
                log["rewrites"].append({"rule": rule, "fn": qual, "before": old, "after": new, "count": 0})
                continue
            raise LostAnchor(f"{qual}: rewrite {rule} anchor {old!r} not found")
        for a, b, caps in occ:
            ed.replace(toks[a].pos, toks[b].end, subst_caps(new, caps, toks, src, [x for x in fs.rewrites if x[1] != old]))
        log["rewrites"].append({"rule": rule, "fn": qual, "before": old, "after": new, "count": len(occ)})
    # hints
    for where, anchor, nth, raw in fs.hints:
        chk0 = norm("\n".join(raw))
        if not (chk0.startswith("proof {") or chk0.startswith("assert") or chk0.startswith("let ghost")):
            raise SystemExit(f"{qual}: hint must be ghost code (proof block, assert, let ghost)")
        if where == "begin":
            # ghost declarations at the start of the body: independent of any statement of the function
            ed.insert(toks[it.body_open].end, "\n" + "\n".join(raw) + "\n", prio=-1)
            continue
        if where == "result":
            # R14: bind the tail expression to the named result so that ghost code can follow it:
            #   { stmts; E }  ->  { stmts; let r = E; <ghost>; r }
            seg_lo = lo
            k = lo
            while k < hi:
                t = toks[k]
                if t.kind == "punct" and t.text in ("(", "[", "{"):
                    k = match_close(toks, k)
                elif t.kind == "punct" and t.text == ";":
                    seg_lo = k + 1
                k += 1
            # skip leading block statements (if/match/while/for/loop/{}) that are followed by more code
            def block_stmt_end(a):
                """if toks[a] starts a block-like expression, index of its last token, else None"""
                t = toks[a]
                if t.kind == "punct" and t.text == "{":
                    return match_close(toks, a)
                if t.kind == "ident" and t.text in ("if", "match", "while", "for", "loop", "unsafe"):
                    j = a + 1
                    while j < hi:
                        tj = toks[j]
                        if tj.kind == "punct" and tj.text in ("(", "["):
                            j = match_close(toks, j)
                        elif tj.kind == "punct" and tj.text == "{":
                            e = match_close(toks, j)
                            nx = next_sig(toks, e + 1, hi)
                            if t.text == "if" and nx is not None and toks[nx].text == "else":
                                nn = next_sig(toks, nx + 1, hi)
                                if toks[nn].text == "if":
                                    j = nn + 1
                                    continue
                                return match_close(toks, nn)
                            return e
                        j += 1
                return None
            first = next_sig(toks, seg_lo, hi)
            while first is not None:
                e = block_stmt_end(first)
                if e is None:
                    break
                nx = next_sig(toks, e + 1, hi)
                if nx is None or toks[nx].text in (".", "?", "as") or (toks[nx].kind == "punct" and toks[nx].text in ("==", "!=", "&&", "||", "+", "-", "*", "/")):
                    break
                first = nx
            last = None
            for x in range(hi - 1, lo - 1, -1):
                if toks[x].kind not in ("ws", "comment"):
                    last = x
                    break
            if first is None or last is None or last < first:
                log["lost_hints"].append({"fn": qual, "anchor": "result"})
                continue
            rn = fs.ret if fs.ret != "-" else "r"
            ed.insert(toks[first].pos, f"let {rn} = ", prio=3)
            ed.insert(toks[last].end, ";\n" + "\n".join(raw) + f"\n{rn}", prio=-3)
            log["rewrites"].append({"rule": "R14", "fn": qual, "before": "{ …; E }", "after": "{ …; let r = E; <ghost code>; r }"})
            continue
        if where == "end":
            # end of a body that finishes with a statement (unit-returning functions)
            ed.insert(toks[it.body_close].pos, "\n" + "\n".join(raw) + "\n", prio=-2)
            continue
        if where == "tail":
            # before the tail expression of the body: after the last depth-0 `;` or `}` of the body
            k = lo
            last = None
            while k < hi:
                t = toks[k]
                if t.kind == "punct" and t.text in ("(", "[", "{"):
                    k = match_close(toks, k)
                    if toks[k].text == "}":
                        last = k
                elif t.kind == "punct" and t.text == ";":
                    last = k
                k += 1
            rest_sig = [x for x in range((last + 1) if last is not None else lo, hi) if toks[x].kind not in ("ws", "comment")]
            if last is None or not rest_sig:
                log["lost_hints"].append({"fn": qual, "anchor": "tail"})
                continue
            ed.insert(toks[last].end, "\n" + "\n".join(raw) + "\n", prio=-2)
            continue
        occ = find_subseq(toks, lo, hi, anchor)
        if len(occ) < nth:
            # fallback: an anchor that is a whole `let [mut] x =` / `let x :` statement whose right-hand side changed is
            # re-anchored at the statement that still binds the same variable (the hint is ghost code; logged)
            at = [t_.text for t_ in tokenize(anchor) if t_.kind not in ("ws", "comment")]
            re_occ = []
            if len(at) >= 4 and at[0] == "let" and at[-1] == ";":
                cut = None
                for q_, tx_ in enumerate(at[:5]):
                    if tx_ in ("=", ":"):
                        cut = q_; break
                if cut is not None and cut >= 2:
                    pref = " ".join(at[:cut + 1])
                    for (pa, pb) in find_subseq(toks, lo, hi, pref):
                        depth_ = 0
                        q_ = pb + 1
                        end_ = None
                        while q_ < hi:
                            tq = toks[q_]
                            if tq.kind == "punct" and tq.text in ("(", "[", "{"):
                                q_ = match_close(toks, q_)
                            elif tq.kind == "punct" and tq.text == ";":
                                end_ = q_; break
                            q_ += 1
                        if end_ is not None:
                            re_occ.append((pa, end_))
            if len(re_occ) == 1 and nth == 1:
                occ = re_occ
                log.setdefault("reanchored_hints", []).append({"fn": qual, "anchor": anchor})
            else:
                log["lost_hints"].append({"fn": qual, "anchor": anchor})
                continue
        a, b = occ[nth - 1]
        text = "\n".join(raw)
        chk = norm(text)
        if not (chk.startswith("proof {") or chk.startswith("assert") or chk.startswith("let ghost")):
            raise SystemExit(f"{qual}: hint must be ghost code (proof block, assert, let ghost)")
        if where == "before":
            ed.insert(toks[a].pos, text + "\n", prio=2)
        else:
            ed.insert(toks[b].end, "\n" + text + "\n", prio=-2)


def twin_text(gen_fn_text, name, twin_name, fs: FnSpec, raw):
    """clone of the generated function text with another name and contract"""
    contract = "\n".join(fs.contract)
    new_contract = "\n".join(raw)
    t = gen_fn_text
    if contract.strip():
        if t.count("\n" + contract + "\n") != 1:
            raise SystemExit(f"twin {twin_name}: contract text not unique in generated fn {name}")
        t = t.replace("\n" + contract + "\n", "\n" + new_contract + "\n")
    else:
        raise SystemExit(f"twin {twin_name}: function {name} has no contract to replace")
    t = re.sub(r"\bfn\s+" + re.escape(name) + r"\b", "fn " + name + "__vxtwin_" + twin_name, t, count=1)
    t = t.replace("/*@vx:begin ", "/*@vx:begin TWIN:" + twin_name + ":").replace("/*@vx:end ", "/*@vx:end TWIN:" + twin_name + ":")
    return t


def apply_text_rewrites(toks, lo, hi, rewrites, ed, log, where):
    for rule, old, new in rewrites:
        occ = find_subseq_w(toks, lo, hi, old)
        if not occ:
            raise LostAnchor(f"{where}: rewrite {rule} anchor {old!r} not found")
        for a, b, caps in occ:
            ed.replace(toks[a].pos, toks[b].end, subst_caps(new, caps, toks, ed.src))
        log["rewrites"].append({"rule": rule, "fn": where, "before": old, "after": new, "count": len(occ)})


def gen_file(ws, fsx: FileSpec, log):
    path = os.path.join(ws, fsx.path)
    if not os.path.exists(path):
        raise LostAnchor(f"file {fsx.path} missing")
    src = open(path).read()
    toks = tokenize(src)
    items = parse_items(toks, 0, len(toks))
    ed = Edits(src)
    twins_pending = []   # (insert_after_item, fn_item, fnspec, qual)
    wrapped_fns = []
    for isp in fsx.items:
        hdr_, nth_ = isp.header, None
        mm = re.match(r"(.*?)\s*#\s*(\d+)$", hdr_)
        if mm:
            hdr_, nth_ = mm.group(1).strip(), int(mm.group(2))     # `item impl Message #2`: the n-th item with this header
        cands = [i for i in items if i.header == hdr_]
        if nth_ is not None:
            if len(cands) < nth_:
                raise LostAnchor(f"{fsx.path}: item `{hdr_}` #{nth_} not found ({len(cands)} candidates)")
            cands = [cands[nth_ - 1]]
            isp.header = hdr_
        if len(cands) != 1:
            raise LostAnchor(f"{fsx.path}: item `{isp.header}` found {len(cands)} times")
        it = cands[0]
        split = "split" in isp.flags and it.kind == "impl"
        if not split:
            ed.insert(toks[it.first].pos, "verus! {\n", prio=9)
            ed.insert(toks[it.last].end, "\n} // verus!\n", prio=-9)
        if "XB" in isp.flags:
            # the type stays opaque to Verus (fields outside its dialect): #[verifier::external_body]
            ed.insert(toks[it.first].pos, "#[verifier::external_body] ", prio=8)
            log["rewrites"].append({"rule": "XB", "fn": isp.header, "before": "<type>", "after": "#[verifier::external_body] <type>", "count": 1})
        if "R1" in isp.flags:
            # visibility: pub(crate)/pub(super) -> pub inside this item (types and fields)
            k = it.first
            cnt = 0
            while k <= it.last:
                if toks[k].kind == "ident" and toks[k].text == "pub":
                    nx = next_sig(toks, k + 1, it.last + 1)
                    if nx is not None and toks[nx].text == "(":
                        # only at item header or field level for types; for impls also fn visibility
                        c = match_close(toks, nx)
                        ed.replace(toks[k].pos, toks[c].end, "pub")
                        cnt += 1
                        k = c
                k += 1
            log["rewrites"].append({"rule": "R1", "fn": isp.header, "before": "pub(crate)", "after": "pub", "count": cnt})
        if "R1p" in isp.flags:
            # private item -> pub (specs of pub functions must be able to name it)
            has_vis = any(toks[k].kind == "ident" and toks[k].text == "pub" for k in range(it.first, it.kw))
            if not has_vis:
                ed.insert(toks[it.kw].pos, "pub ", prio=10)
                log["rewrites"].append({"rule": "R1", "fn": isp.header, "before": "<private item>", "after": "pub <item>", "count": 1})
        if "R1f" in isp.flags and it.kind == "struct" and it.body_open >= 0:
            # private named fields -> pub (needed for field access in specs of public fns)
            k = it.body_open + 1
            cnt = 0
            expect_field = True
            while k < it.body_close:
                t = toks[k]
                if t.kind in ("ws", "comment"):
                    k += 1; continue
                if expect_field:
                    if t.kind == "punct" and t.text == "#":
                        b = next_sig(toks, k + 1, it.body_close)
                        k = match_close(toks, b) + 1; continue
                    if t.kind == "ident" and t.text != "pub":
                        ed.insert(t.pos, "pub ")
                        cnt += 1
                    expect_field = False
                if t.kind == "punct" and t.text in ("(", "[", "{"):
                    k = match_close(toks, k)
                elif t.kind == "punct" and t.text == "<":
                    pass
                elif t.kind == "punct" and t.text == ",":
                    # commas inside generics `<A, B>` : track angle depth
                    # compute angle depth from field start lazily
                    expect_field = _angle_depth_zero(toks, it.body_open + 1, k)
                k += 1
            log["rewrites"].append({"rule": "R1f", "fn": isp.header, "before": "<private field>", "after": "pub <field>", "count": cnt})
        apply_text_rewrites(toks, it.first, it.last + 1, isp.rewrites, ed, log, isp.header)
        if it.kind == "fn":
            fs = isp.fns[it.name]
            process_fn(toks, it, fs, it.name, ed, log, False)
            wrapped_fns.append((it, fs, it.name, it, False))
        elif it.kind in ("impl", "trait"):
            is_trait_impl = " for " in (" " + isp.header + " ") and it.kind == "impl"
            tyname = isp.header.split(" for ")[-1] if is_trait_impl else isp.header[len("impl "):]
            tyname = tyname.replace(" ", "")
            prefix = (isp.header.replace(" ", "") if is_trait_impl else tyname)
            seen = set()
            for ch in it.children:
                if ch.kind != "fn":
                    continue
                qual = f"{prefix}::{ch.name}"
                fs = isp.fns.get(ch.name)
                if split:
                    # `item impl T [split]`: the impl block stays outside verus! (its other methods are outside the dialect
                    # even as external items: async, select!, closures the macro cannot re-borrow); each listed method is
                    # put into an impl block of its own, where it stands, by closing the block before it and reopening
                    # it behind it — insertions only, the method text itself is untouched
                    if fs is None or fs.mode == "external":
                        continue
                    hdr_rest = isp.header[len("impl "):]
                    ed.insert(toks[ch.first].pos, "}\nverus! {\nimpl " + hdr_rest + " {\n", prio=9)
                    ed.insert(toks[ch.last].end, "\n}\n} // verus!\nimpl " + hdr_rest + " {\n", prio=-9)
                    log["rewrites"].append({"rule": "SPLIT", "fn": qual, "before": "impl T { .. fn f .. }", "after": "impl T { .. } verus!{ impl T { fn f } } impl T { .. }", "count": 1})
                if fs is None:
                    if isp.default == "verify":
                        fs = FnSpec(ch.name, "verify")
                    else:
                        ed.insert(toks[ch.first].pos, "#[verifier::external] ", prio=5)
                        continue
                seen.add(ch.name)
                if fs.mode == "external":
                    ed.insert(toks[ch.first].pos, "#[verifier::external] ", prio=5)
                    continue
                process_fn(toks, ch, fs, qual, ed, log, is_trait_impl)
                wrapped_fns.append((ch, fs, qual, it, is_trait_impl))
            missing = set(isp.fns) - seen - {n for n, f in isp.fns.items() if f.mode == "external"}
            if missing:
                raise LostAnchor(f"{fsx.path}: `{isp.header}`: functions not found: {sorted(missing)}")
    apply_text_rewrites(toks, 0, len(toks), fsx.rewrites, ed, log, fsx.path)
    # imports after the last inner attribute / at top: put after leading comments
    imp = "use vstd::prelude::*;\n" + "".join(l + "\n" for l in fsx.imports)
    # find position after initial `//!` docs and `#![..]` attrs
    pos = 0
    k = 0
    while k < len(toks):
        t = toks[k]
        if t.kind == "ws": k += 1; continue
        if t.kind == "comment" and (t.text.startswith("//!") or t.text.startswith("/*!") or t.text.startswith("//")) and not t.text.startswith("///"):
            pos = t.end; k += 1; continue
        if t.kind == "punct" and t.text == "#" and toks[k + 1].text == "!":
            c = match_close(toks, k + 2)
            pos = toks[c].end; k = c + 1; continue
        break
    ed.insert(pos, "\n" + imp, prio=0)
    out = ed.apply()
    for (ds, de, dt, _dp) in getattr(ed, "dropped", []):
        # ghost code (a hint, an invariant) that landed inside a region replaced by a rewrite is gone: say so
        if ds == de and re.search(r"\bproof\s*\{|\blet\s+ghost\b|\bassert\b|\binvariant\b", dt):
            log["lost_hints"].append({"fn": fsx.path, "anchor": "(inside a rewritten region) " + norm(dt)[:80]})
    # twins: operate on generated text using markers
    extra = []
    for (fnit, fs, qual, parent, in_trait) in wrapped_fns:
        if fs.mode != "verify":
            continue
        tw = list(fs.twins)
        req, rest = split_sections(fs.contract)
        if req and not fs.novacuity and not in_trait:
            tw.append(("vacuity", req + ["ensures false,"]))
        if not tw:
            continue
        if in_trait:
            raise SystemExit(f"{qual}: twins are not possible inside a trait impl")
        b = out.index(f"/*@vx:begin {qual}*/")
        e = out.index(f"/*@vx:end {qual}*/") + len(f"/*@vx:end {qual}*/")
        gtxt = out[b:e]
        for name, raw in tw:
            extra.append((e, "\n" + twin_text(gtxt, fnit.name, name, fs, raw) + "\n"))
    for pos_, text in sorted(extra, key=lambda x: -x[0]):
        out = out[:pos_] + text + out[pos_:]
    if UNIT is not None and UNIT.constmod and UNIT.constmod[1] == fsx.path and UNIT.extconsts:
        out += "\n" + consts_text(UNIT)
    if fsx.append:
        out += "\nverus! {\n/*@vx:begin APPEND*/\n" + "\n".join(fsx.append) + "\n/*@vx:end APPEND*/\n} // verus!\n"
    open(path, "w").write(out)
    # line table
    regions = []
    stack = []
    labels = {}
    for i, line in enumerate(out.split("\n"), 1):
        for m in re.finditer(r"/\*@vx:(begin|end) ([^*]+)\*/", line):
            if m.group(1) == "begin":
                stack.append((m.group(2), i))
            else:
                name, b = stack.pop()
                regions.append({"fn": name, "begin": b, "end": i})
        m = re.search(r"//\s*@L\s+([\w.\-+]+)", line)
        if m:
            labels[str(i)] = m.group(1)
    return {"file": fsx.path, "regions": regions, "labels": labels}


def _angle_depth_zero(toks, lo, k):
    d = 0
    for j in range(lo, k):
        t = toks[j]
        if t.kind == "punct":
            if t.text == "<": d += 1
            elif t.text == ">": d = max(0, d - 1)
            elif t.text == ",": pass
    # recompute from last field start: approximate by resetting at each depth-0 comma
    d = 0
    for j in range(lo, k):
        t = toks[j]
        if t.kind == "punct":
            if t.text == "<": d += 1
            elif t.text == ">": d = max(0, d - 1)
    return d == 0


def consts_text(u):
    t = ""
    for cpath, cty, cval, full in u.extconsts:
        if cval != "-":
            t += f"const _: () = assert!({full} == {cval}); // R10: value checked at compile time against the real constant\n"
    t += "verus! {\n"
    for cpath, cty, cval, full in u.extconsts:
        if cval == "-":
            # opaque constant: the spec only knows it is one fixed value
            t += (f"pub uninterp spec fn {extconst_name(cpath)}_spec() -> {cty};\n"
                  f"#[verifier::external_body]\npub const fn {extconst_name(cpath)}() -> (r: {cty})\n    ensures r == {extconst_name(cpath)}_spec(),\n{{ {full} }}\n")
        else:
            t += (f"#[verifier::external_body]\npub const fn {extconst_name(cpath)}() -> (r: {cty})\n    ensures r == {cval},\n{{ {full} }}\n")
    t += "} // verus!\n"
    return t


def main():
    spec_path, ws, out_map = sys.argv[1:4]
    u = parse_vspec(spec_path)
    global EXTCONSTS, CONSTMOD, UNIT
    UNIT = u
    EXTCONSTS = u.extconsts
    CONSTMOD = u.constmod[0] if u.constmod else "crate::vx_prelude"
    log = {"unit": u.unit, "functions": [], "rewrites": [], "lost_hints": [], "lost_closures": [], "files": []}
    try:
        for f in u.files:
            log["files"].append(gen_file(ws, f, log))
        # prelude module + crate root edits
        rootp = os.path.join(ws, u.root)
        root = open(rootp).read()
        head = ""
        for feat in u.features:
            head += f"#![feature({feat})]\n"
        head += "#![allow(unused_imports, unused_braces, unused_parens, unused_variables, dead_code, unexpected_cfgs, unused_attributes)]\n"
        # inner attributes must come first; existing file may start with comments / #![..]: prepend is fine
        root = head + root
        if u.prelude:
            specdir = os.path.dirname(os.path.abspath(spec_path))
            ptxt = "// generated by vx/gen.py from prelude fragments: " + u.prelude + "\n"
            for frag in u.prelude.split():
                pp = os.path.join(specdir, os.path.basename(frag))
                name = os.path.splitext(os.path.basename(frag))[0]
                ptxt += f"pub mod {name} {{\n" + open(pp).read() + f"\n}}\npub use {name}::*;\n"
            if u.extconsts and not u.constmod:
                ptxt += "pub mod vx_consts {\nuse vstd::prelude::*;\n" + consts_text(u) + "}\npub use vx_consts::*;\n"
            dst = os.path.join(os.path.dirname(rootp), "vx_prelude.rs")
            open(dst, "w").write(ptxt)
            root += "\n#[allow(unused_imports, dead_code, unused_variables, non_snake_case)]\npub mod vx_prelude;\n"
            regions = []
            labels = {}
            stack = []
            for i, line in enumerate(ptxt.split("\n"), 1):
                for m in re.finditer(r"/\*@vx:(begin|end) ([^*]+)\*/", line):
                    if m.group(1) == "begin": stack.append((m.group(2), i))
                    else:
                        name, b = stack.pop(); regions.append({"fn": name, "begin": b, "end": i})
            log["files"].append({"file": os.path.relpath(dst, ws), "regions": regions, "labels": labels})
        open(rootp, "w").write(root)
    except LostAnchor as e:
        print("UNDECIDED reason=lost-anchor " + str(e))
        json.dump(log, open(out_map, "w"), indent=1)
        sys.exit(2)
    json.dump(log, open(out_map, "w"), indent=1)


if __name__ == "__main__":
    main()
