#!/usr/bin/env python3
"""Run one Verus unit against /repo's current working tree.

usage: unit.py <unit> [--keep] [--rlimit N] [--repo DIR]
Prints a JSON result on stdout (also returned by run_unit()).

result = {
  unit, status: "ok" | "failed" | "undecided", reason?,
  functions: [{fn, success, time_us, rlimit, twin}],
  errors: [{fn, message, label, text, twin, spans:[..]}],
  rewrites, item hashes, assumptions (scan), wall_s
}
"""
import json
import os
import re
import shutil
import subprocess
import sys
import time

VERIF = os.path.dirname(os.path.dirname(os.path.abspath(__file__)))
REPO = os.environ.get("VX_REPO", "/repo")
SCRATCH_ROOT = os.environ.get("VX_SCRATCH", "/var/tmp")
TARGET = os.environ.get("VX_TARGET_DIR", os.path.join(VERIF, ".cache", "vx-target"))
TOOLCHAIN = "1.98.1"

sys.path.insert(0, os.path.dirname(os.path.abspath(__file__)))
from gen import parse_vspec  # noqa: E402


def scan_assumptions(ws, files):
    """mechanical scan of the generated sources for unproved assumptions"""
    pats = ["assume(", "admit(", "external_body", "assume_specification", "axiom", "external_type_specification",
            "verifier::external]", "uninterp"]
    found = {}
    for f in files:
        p = os.path.join(ws, f)
        if not os.path.exists(p):
            continue
        txt = open(p).read()
        for pat in pats:
            n = txt.count(pat)
            if n:
                found.setdefault(pat, {})[f] = n
    return found


def run_unit(unit, keep=False, rlimit=None, repo=REPO, extra_verus_args="", render=False):
    t0 = time.time()
    spec = os.path.join(VERIF, "specs", unit + ".vspec")
    u = parse_vspec(spec)
    ws = os.path.join(SCRATCH_ROOT, f"vx-{unit}-{os.getpid()}")
    res = {"unit": unit, "status": "undecided", "functions": [], "errors": [], "properties": u.properties}
    try:
        if os.path.exists(ws):
            shutil.rmtree(ws)
        os.makedirs(ws)
        subprocess.run(["rsync", "-a", "--exclude", "/target", "--exclude", ".git", repo + "/", ws + "/"], check=True)
        mp = os.path.join(ws, "vx-map.json")
        g = subprocess.run([sys.executable, os.path.join(VERIF, "vx", "gen.py"), spec, ws, mp],
                           capture_output=True, text=True)
        if g.returncode != 0:
            res["reason"] = (g.stdout + g.stderr).strip()[-2000:]
            res["status"] = "undecided"
            return res
        gmap = json.load(open(mp))
        res["rewrites"] = gmap["rewrites"]
        res["lost_hints"] = gmap["lost_hints"]
        res["lost_closures"] = gmap.get("lost_closures", [])
        res["reanchored_hints"] = gmap.get("reanchored_hints", [])
        res["items"] = gmap["functions"]
        jout = os.path.join(ws, "vx-verus.json")
        env = dict(os.environ)
        env.update({
            "RUSTC_WORKSPACE_WRAPPER": os.path.join(VERIF, "bin", "vx-rustc"),
            "VX_TARGET_CRATE": u.crate,
            "VX_JSON_OUT": jout,
            "CARGO_TARGET_DIR": TARGET,
            "CARGO_NET_OFFLINE": "true",
            "VX_VERUS_ARGS": (f"--rlimit {rlimit} " if rlimit else "") + extra_verus_args,
            "VX_THREADS": os.environ.get("VX_THREADS", "8"),
        })
        env.pop("RUSTFLAGS", None)
        cmd = ["cargo", "+" + TOOLCHAIN, "build", "-p", u.package, "--offline", "--message-format=json"]
        if u.kind == "lib":
            cmd.append("--lib")
        res["checker_cmd"] = ("RUSTC_WORKSPACE_WRAPPER=/verif/bin/vx-rustc VX_TARGET_CRATE=%s cargo +%s build -p %s --offline "
                              "(wrapper execs: verus <cargo's rustc args> --output-json --time)" % (u.crate, TOOLCHAIN, u.package))
        # one build at a time per target directory: two checks started together would otherwise wait on cargo's own
        # lock, and the loser can come back with a "fresh" build for which the verifier never ran
        import fcntl
        os.makedirs(TARGET, exist_ok=True)
        with open(os.path.join(TARGET, ".vx-build.lock"), "w") as lockf:
            fcntl.flock(lockf, fcntl.LOCK_EX)
            p = subprocess.run(cmd, cwd=ws, env=env, capture_output=True, text=True)
            if (not os.path.exists(jout) or os.path.getsize(jout) == 0) and "Blocking waiting for file lock" in (p.stderr or ""):
                p = subprocess.run(cmd, cwd=ws, env=env, capture_output=True, text=True)
        diags = []
        other_crate_error = False
        for line in p.stdout.split("\n"):
            if not line.startswith("{"):
                continue
            try:
                m = json.loads(line)
            except Exception:
                continue
            if m.get("reason") == "compiler-message":
                mm = m["message"]
                if mm.get("level") in ("error", "error: internal compiler error"):
                    tgt = m.get("target", {}).get("name", "")
                    diags.append(mm)
        # line table
        table = {}
        for f in gmap["files"]:
            table[f["file"]] = f
        def locate(file, line):
            f = table.get(file)
            if not f:
                return None, None
            best = None
            for r in f["regions"]:
                if r["begin"] <= line <= r["end"]:
                    if best is None or (r["end"] - r["begin"]) < (best["end"] - best["begin"]):
                        best = r
            return (best["fn"] if best else None), f["labels"].get(str(line))
        if not os.path.exists(jout) or os.path.getsize(jout) == 0:
            # verus never ran or crashed before emitting json: a dependency failed to build,
            # or a front-end panic
            res["reason"] = "verus produced no result: " + (p.stderr[-3000:] if p.stderr else "")
            res["diagnostics"] = [d.get("rendered", d.get("message"))[:800] for d in diags][:10]
            return res
        vj = json.load(open(jout))
        vr = vj.get("verification-results", {})
        res["verus_summary"] = vr
        res["times_ms"] = {k: vj.get("times-ms", {}).get(k) for k in ("total", "estimated-cpu-time")}
        res["smt_ms"] = vj.get("times-ms", {}).get("smt", {}).get("total")
        # function breakdown
        fb = []
        for mod in vj.get("times-ms", {}).get("smt", {}).get("smt-run-module-times", []):
            for f in mod.get("function-breakdown", []):
                fb.append(f)
        for f in fb:
            name = f["function"]
            segs = name.split("::")
            if any("__vxtwin_" in sg for sg in segs[:-1]):
                continue  # item nested in a twin function (a local const): not an obligation of its own
            twin = "__vxtwin_" in segs[-1]
            res["functions"].append({"fn": name, "success": f["success"], "time_us": f.get("time-micros"),
                                     "rlimit": f.get("rlimit"), "twin": twin, "mode": f.get("mode:")})
        # errors
        srcs = {}
        def srcline(file, line):
            if file not in srcs:
                try:
                    srcs[file] = open(os.path.join(ws, file)).read().split("\n")
                except Exception:
                    srcs[file] = []
            l = srcs[file]
            return l[line - 1].strip() if 0 < line <= len(l) else ""
        hard = []
        for d in diags:
            spans = d.get("spans", [])
            fn = None; label = None; text = None
            sp_out = []
            # the span Verus marks "failed this ..." names the clause; a span that merely says where control was ("at the
            # end of the function body", "at this exit") covers many lines and must not lend a label found inside it
            spans = sorted(spans, key=lambda s_: 0 if "failed" in (s_.get("label") or "") else 1)
            for s in spans:
                f_, l_ = locate(s["file_name"], s["line_start"])
                if l_ is None and ("failed" in (s.get("label") or "") or not s.get("label")):
                    for ln_ in range(s["line_start"], s.get("line_end", s["line_start"]) + 1):
                        l2 = table.get(s["file_name"], {}).get("labels", {}).get(str(ln_))
                        if l2:
                            l_ = l2
                            break
                sp_out.append({"file": s["file_name"], "line": s["line_start"], "label": s.get("label"), "fn": f_,
                               "text": srcline(s["file_name"], s["line_start"])[:200]})
                if f_ and not fn:
                    fn = f_
                if l_ and not label:
                    label = l_
            # prefer the span that carries a @L label, else the "failed this postcondition" span
            for s in sp_out:
                if s["label"] and ("failed this" in s["label"] or "failed pre" in s["label"]):
                    text = s["text"]
            if text is None and sp_out:
                text = sp_out[0]["text"]
            msg = d.get("message", "")
            if render:
                print(d.get("rendered"), file=sys.stderr)
            e = {"fn": fn, "message": msg, "label": label, "text": text, "spans": sp_out,
                 "twin": bool(fn and fn.startswith("TWIN:"))}
            verif_msgs = ("postcondition not satisfied", "precondition not satisfied", "assertion failed",
                          "invariant not satisfied", "possible arithmetic", "possible division",
                          "possible bit shift", "decreases not satisfied", "recommendation not met",
                          "could not prove termination", "unreachable", "loop invariant", "possible cast",
                          "failed to prove", "cannot show", "rlimit", "Resource limit", "panic", "unwrap",
                          "constructed value may fail to meet its declared type invariant", "index out of bounds", "unable to prove", "fails to satisfy",
                          "possible index", "possible slice", "may be out of bounds", "is not satisfied",
                          "precondition not met", "index in bounds", "postcondition not met", "invariant not met")
            if any(v in msg for v in verif_msgs):
                e["kind"] = "verification"
                if "rlimit" in msg or "Resource limit" in msg:
                    e["kind"] = "rlimit"
            elif msg.startswith("aborting due to") or msg.startswith("could not compile"):
                continue
            elif res["functions"] and not d.get("code") and not vr.get("encountered-vir-error"):
                # the SMT stage ran (per-function results exist) and rustc gave the diagnostic no error code: this is a
                # failed obligation whose wording is not in the list above, not a front-end rejection
                e["kind"] = "verification"
                e["unlisted_message"] = True
            else:
                e["kind"] = "frontend"
                e["rendered"] = (d.get("rendered") or "")[:1500]
                hard.append(e)
            res["errors"].append(e)
        pm = re.search(r"panicked at ([^\n]*)\n([^\n]*)", p.stderr or "")
        if pm:
            hard.append({"message": "verus front-end panic: " + pm.group(1) + " " + pm.group(2)})
        res["assumption_scan"] = scan_assumptions(ws, [f["file"] for f in gmap["files"]])
        if hard:
            res["status"] = "undecided"
            res["reason"] = "front-end / unsupported construct: " + hard[0]["message"][:300]
        elif vr.get("encountered-vir-error"):
            res["status"] = "undecided"
            res["reason"] = "verus vir error"
        else:
            res["status"] = "ran"
        return res
    finally:
        res["wall_s"] = round(time.time() - t0, 2)
        if keep:
            res["scratch"] = ws
        else:
            shutil.rmtree(ws, ignore_errors=True)


if __name__ == "__main__":
    import argparse
    ap = argparse.ArgumentParser()
    ap.add_argument("unit")
    ap.add_argument("--keep", action="store_true")
    ap.add_argument("--rlimit", type=float)
    ap.add_argument("--brief", action="store_true")
    ap.add_argument("--verus-args", default="")
    ap.add_argument("--render", action="store_true")
    a = ap.parse_args()
    r = run_unit(a.unit, keep=a.keep, rlimit=a.rlimit, extra_verus_args=a.verus_args, render=a.render)
    if a.brief:
        print("status", r["status"], r.get("reason", ""), "wall", r["wall_s"])
        print("summary", r.get("verus_summary"))
        for f in r["functions"]:
            if not f["success"] or f["twin"]:
                print(" fn", f["fn"], "success" if f["success"] else "FAILED", f["time_us"])
        for e in r["errors"]:
            print(" err", e["kind"], e["fn"], "|", e["message"], "|", e.get("label"), "|", (e.get("text") or "")[:120])
            if e["kind"] == "frontend":
                print(e.get("rendered"))
        if r.get("diagnostics"):
            for d in r["diagnostics"]: print(d)
        if a.keep: print("scratch", r.get("scratch"))
    else:
        print(json.dumps(r, indent=1))
