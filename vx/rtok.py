"""Small Rust tokenizer + item / fn / closure / loop locator.

Not a parser: it understands exactly enough lexical structure (strings, raw strings,
chars vs lifetimes, comments, bracket nesting) to find items by header and to splice
text at token boundaries.  It never rewrites tokens inside function bodies by itself.
"""
import re
from dataclasses import dataclass, field

MULTI = ["..=", "...", "->", "=>", "::", "||", "&&", "..", "==", "!=", "<=", ">=",
         "+=", "-=", "*=", "/=", "|=", "&=", "^=", "%="]

@dataclass
class Tok:
    kind: str   # ws comment str char lifetime ident num punct
    text: str
    pos: int    # byte offset (in str index units) of token start

    @property
    def end(self):
        return self.pos + len(self.text)


def tokenize(src: str):
    toks = []
    i, n = 0, len(src)
    while i < n:
        c = src[i]
        if c.isspace():
            j = i
            while j < n and src[j].isspace():
                j += 1
            toks.append(Tok("ws", src[i:j], i)); i = j; continue
        if src.startswith("//", i):
            j = src.find("\n", i)
            if j < 0: j = n
            toks.append(Tok("comment", src[i:j], i)); i = j; continue
        if src.startswith("/*", i):
            depth, j = 1, i + 2
            while j < n and depth:
                if src.startswith("/*", j): depth += 1; j += 2
                elif src.startswith("*/", j): depth -= 1; j += 2
                else: j += 1
            toks.append(Tok("comment", src[i:j], i)); i = j; continue
        # raw strings / byte strings
        m = re.match(r'(b|c)?r(#*)"', src[i:i+40])
        if m:
            hashes = m.group(2)
            close = '"' + hashes
            j = src.find(close, i + len(m.group(0)))
            j = n if j < 0 else j + len(close)
            toks.append(Tok("str", src[i:j], i)); i = j; continue
        if c == '"' or (c in "bc" and i + 1 < n and src[i+1] == '"'):
            j = i + (2 if c != '"' else 1)
            while j < n and src[j] != '"':
                j += 2 if src[j] == "\\" else 1
            j += 1
            toks.append(Tok("str", src[i:j], i)); i = j; continue
        if c == "'" or (c == "b" and i + 1 < n and src[i+1] == "'"):
            k = i + (1 if c == "b" else 0)
            # char literal:  'x'  '\n'  '\u{..}'   vs lifetime 'a
            m = re.match(r"'(\\u\{[0-9a-fA-F_]+\}|\\x[0-9a-fA-F]{2}|\\.|[^\\'])'", src[k:k+16])
            if m:
                j = k + len(m.group(0))
                toks.append(Tok("char", src[i:j], i)); i = j; continue
            m = re.match(r"'[A-Za-z_][A-Za-z0-9_]*", src[k:k+64])
            if m and c == "'":
                j = i + len(m.group(0))
                toks.append(Tok("lifetime", src[i:j], i)); i = j; continue
        if c.isalpha() or c == "_":
            j = i
            while j < n and (src[j].isalnum() or src[j] == "_"):
                j += 1
            # raw identifier r#foo
            toks.append(Tok("ident", src[i:j], i)); i = j; continue
        if c.isdigit():
            m = re.match(r"0[xob][0-9a-fA-F_]+([iu](8|16|32|64|128|size))?|[0-9][0-9_]*(\.[0-9][0-9_]*)?([eE][+-]?[0-9_]+)?([iuf](8|16|32|64|128|size))?", src[i:i+80])
            txt = m.group(0)
            # "1..2" : do not swallow the range dots
            if "." in txt and src[i+len(txt.split(".")[0]):].startswith(".."):
                txt = txt.split(".")[0]
            # method call on integer literal "1.max(2)" : keep it simple, not used in repo
            toks.append(Tok("num", txt, i)); i += len(txt); continue
        for mtk in MULTI:
            if src.startswith(mtk, i):
                toks.append(Tok("punct", mtk, i)); i += len(mtk); break
        else:
            toks.append(Tok("punct", c, i)); i += 1
    return toks


OPEN = {"(": ")", "[": "]", "{": "}"}
CLOSE = {")", "]", "}"}


def sig(toks):
    """indices of significant tokens"""
    return [k for k, t in enumerate(toks) if t.kind not in ("ws", "comment")]


def norm(text: str) -> str:
    """normalised token text: significant tokens joined by one space"""
    return " ".join(t.text for t in tokenize(text) if t.kind not in ("ws", "comment"))


def match_close(toks, k):
    """index of the bracket closing toks[k] (an opening bracket)"""
    depth = 0
    for j in range(k, len(toks)):
        t = toks[j]
        if t.kind == "punct":
            if t.text in OPEN: depth += 1
            elif t.text in CLOSE:
                depth -= 1
                if depth == 0: return j
    raise ValueError("unbalanced bracket at %d" % toks[k].pos)


ITEM_KW = {"fn", "struct", "enum", "impl", "const", "static", "type", "trait", "mod", "use",
           "union", "macro_rules", "extern"}
QUAL = {"pub", "async", "unsafe", "default", "const", "extern"}


@dataclass
class Item:
    kind: str
    header: str         # normalised "impl From < State > for u8", "fn process", "struct Connection"
    name: str
    first: int          # token index of first token belonging to the item (attrs / doc comments included)
    kw: int             # token index of the item keyword
    last: int           # token index of the last token of the item
    body_open: int = -1  # token index of '{' opening the body (or -1)
    body_close: int = -1
    children: list = field(default_factory=list)


def parse_items(toks, lo, hi):
    """items among toks[lo:hi] at bracket depth 0 relative to lo"""
    items = []
    k = lo
    while k < hi:
        t = toks[k]
        if t.kind == "ws":
            k += 1; continue
        first = k
        # leading doc comments / attributes
        j = k
        while j < hi:
            tj = toks[j]
            if tj.kind in ("ws",): j += 1; continue
            if tj.kind == "comment": j += 1; continue
            if tj.kind == "punct" and tj.text == "#":
                # #[...] or #![...]
                b = j + 1
                while toks[b].kind == "ws" or (toks[b].kind == "punct" and toks[b].text == "!"): b += 1
                if toks[b].text == "[":
                    j = match_close(toks, b) + 1; continue
            break
        if j >= hi:
            break
        # plain (non-doc) comments separated from the item stay outside; keep it simple: item starts at `first`
        # visibility and qualifiers
        q = j
        while q < hi:
            tq = toks[q]
            if tq.kind == "ws" or tq.kind == "comment": q += 1; continue
            if tq.kind == "ident" and tq.text in QUAL:
                # `const` as item keyword:  const NAME : ...   vs  const fn
                if tq.text == "const":
                    nx = next_sig(toks, q + 1, hi)
                    if nx is not None and toks[nx].text not in ("fn", "unsafe", "async", "extern"):
                        break
                if tq.text == "extern":
                    nx = next_sig(toks, q + 1, hi)
                    if nx is not None and toks[nx].kind == "str":
                        q = nx + 1; continue
                q += 1
                # pub(crate)
                nx = next_sig(toks, q, hi)
                if tq.text == "pub" and nx is not None and toks[nx].text == "(":
                    q = match_close(toks, nx) + 1
                continue
            break
        if q >= hi:
            break
        kwt = toks[q]
        kind = kwt.text if kwt.kind == "ident" else "other"
        # find end of item
        depth = 0
        e = q
        body_open = body_close = -1
        angle = 0
        while e < hi:
            te = toks[e]
            if te.kind == "punct":
                if te.text in ("(", "["):
                    e = match_close(toks, e)
                elif te.text == "{":
                    body_open = e
                    body_close = match_close(toks, e)
                    e = body_close
                    if kind in ("const", "static", "type", "use", "let"):
                        body_open = body_close = -1
                        e += 1
                        continue
                    # macro invocation `foo! { }` or struct etc: ends here
                    break
                elif te.text == ";":
                    break
            e += 1
        if e >= hi:
            e = hi - 1
        # header text
        hdr_end = body_open if body_open >= 0 else e
        header = " ".join(t.text for t in toks[q:hdr_end] if t.kind not in ("ws", "comment"))
        name = ""
        if kind in ("fn", "struct", "enum", "const", "static", "type", "trait", "mod", "union"):
            nx = next_sig(toks, q + 1, hi)
            if nx is not None:
                name = toks[nx].text
                if kind == "fn":
                    header = "fn " + name
                elif kind in ("struct", "enum", "union", "trait", "mod", "type", "const", "static"):
                    header = kind + " " + name
        elif kind == "impl":
            # strip where clause from header
            if " where " in header:
                header = header.split(" where ")[0]
        it = Item(kind, header, name, first, q, e, body_open, body_close)
        if kind in ("impl", "trait", "mod") and body_open >= 0:
            it.children = parse_items(toks, body_open + 1, body_close)
        items.append(it)
        k = e + 1
    return items


def next_sig(toks, k, hi):
    while k < hi:
        if toks[k].kind not in ("ws", "comment"):
            return k
        k += 1
    return None


def prev_sig(toks, k, lo=0):
    while k >= lo:
        if toks[k].kind not in ("ws", "comment"):
            return k
        k -= 1
    return None


@dataclass
class FnSig:
    params_open: int
    params_close: int
    arrow: int          # token index of '->' or -1
    ret_first: int      # first token of return type
    ret_last: int       # last token of return type
    where_kw: int       # token index of `where` or -1
    body_open: int


def parse_fn_sig(toks, item: Item) -> FnSig:
    k = next_sig(toks, item.kw + 1, item.last + 1)   # name
    k = next_sig(toks, k + 1, item.last + 1)
    if toks[k].text == "<":
        depth = 0
        while True:
            t = toks[k]
            if t.kind == "punct":
                if t.text == "<": depth += 1
                elif t.text == ">":
                    depth -= 1
                    if depth == 0: break
                elif t.text in OPEN: k = match_close(toks, k)
            k += 1
        k = next_sig(toks, k + 1, item.last + 1)
    assert toks[k].text == "(", "expected ( in fn signature of " + item.header
    po, pc = k, match_close(toks, k)
    k = next_sig(toks, pc + 1, item.last + 1)
    arrow = rf = rl = wk = -1
    end = item.body_open if item.body_open >= 0 else item.last
    if toks[k].text == "->":
        arrow = k
        rf = next_sig(toks, k + 1, end)
        j = rf
        rl = rf
        while j < end:
            t = toks[j]
            if t.kind == "ident" and t.text == "where":
                wk = j; break
            if t.kind == "punct" and t.text in ("(", "["):
                j = match_close(toks, j)
            if toks[j].kind not in ("ws", "comment"):
                rl = j
            j += 1
    else:
        j = k
        while j < end:
            if toks[j].kind == "ident" and toks[j].text == "where":
                wk = j; break
            j += 1
    return FnSig(po, pc, arrow, rf, rl, wk, item.body_open)


EXPR_END_KINDS = ("ident", "num", "str", "char")
KW_NOT_EXPR_END = {"return", "move", "in", "if", "else", "match", "while", "for", "let", "mut",
                   "break", "continue", "as", "ref", "loop", "where", "yield"}


@dataclass
class Closure:
    bar1: int       # token index of opening '|' (or '||')
    bar2: int       # token index of closing '|' (== bar1 for '||')
    move_kw: int    # token index of `move` or -1
    body_first: int
    body_last: int
    block: bool     # body is already a `{}` block


def find_closures(toks, lo, hi):
    """closures among toks[lo:hi] in source order (outer closures before the ones nested in them)"""
    out = []
    k = lo
    while k < hi:
        t = toks[k]
        if t.kind == "punct" and t.text in ("|", "||"):
            p = prev_sig(toks, k - 1, lo)
            is_start = True
            if p is not None:
                pt = toks[p]
                if pt.kind in EXPR_END_KINDS and not (pt.kind == "ident" and pt.text in KW_NOT_EXPR_END):
                    is_start = False
                if pt.kind == "punct" and pt.text in (")", "]", "}", "?"):
                    is_start = False
                    # `}` can end a statement-block before a closure; too rare to matter
            if is_start:
                mv = p if (p is not None and toks[p].text == "move") else -1
                if t.text == "||":
                    b2 = k
                else:
                    j = k + 1
                    while j < hi:
                        tj = toks[j]
                        if tj.kind == "punct" and tj.text in OPEN:
                            j = match_close(toks, j)
                        elif tj.kind == "punct" and tj.text == "|":
                            break
                        j += 1
                    b2 = j
                bf = next_sig(toks, b2 + 1, hi)
                # optional return type
                if toks[bf].text == "->":
                    j = bf
                    while toks[j].text != "{":
                        j += 1
                    bf = j
                if toks[bf].text == "{":
                    bl = match_close(toks, bf); block = True
                else:
                    block = False
                    j = bf
                    bl = bf
                    while j < hi:
                        tj = toks[j]
                        if tj.kind == "punct":
                            if tj.text in OPEN:
                                j = match_close(toks, j)
                            elif tj.text in CLOSE or tj.text in (",", ";"):
                                break
                        if toks[j].kind not in ("ws", "comment"):
                            bl = j
                        j += 1
                out.append(Closure(k, b2, mv, bf, bl, block))
                k = b2 + 1
                continue
        k += 1
    return out


@dataclass
class Loop:
    kw: int
    kind: str
    body_open: int
    in_kw: int = -1   # for `for` loops: token index of `in`


def find_loops(toks, lo, hi):
    out = []
    k = lo
    while k < hi:
        t = toks[k]
        if t.kind == "ident" and t.text in ("while", "for", "loop"):
            p = prev_sig(toks, k - 1, lo)
            # `for` in `impl X for Y` / HRTB cannot occur inside a body except `for<'a>`
            nx = next_sig(toks, k + 1, hi)
            if t.text == "for" and nx is not None and toks[nx].text == "<":
                k += 1; continue
            j = k + 1
            in_kw = -1
            while j < hi:
                tj = toks[j]
                if tj.kind == "punct" and tj.text in ("(", "["):
                    j = match_close(toks, j)
                elif tj.kind == "ident" and tj.text == "in" and t.text == "for" and in_kw < 0:
                    in_kw = j
                elif tj.kind == "punct" and tj.text == "{":
                    break
                j += 1
            out.append(Loop(k, t.text, j, in_kw))
        k += 1
    return out
