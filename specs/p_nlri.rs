// Prelude fragment for unit packet_nlri: a generic `T: io::Read` source as a stream with a number of bytes left (reads
// either fail or consume exactly what they return), MPLS label stacks / route distinguishers as opaque values.
use vstd::prelude::*;
use std::io;
use std::net::{Ipv4Addr, Ipv6Addr};
use crate::bgp::{Ipv4Net, Ipv6Net};
use crate::mpls::MplsLabelStack;
use crate::rd::RouteDistinguisher;
verus! {

#[verifier::external_type_specification]
#[verifier::external_body]
pub struct ExIoErrorN(io::Error);
#[verifier::external_type_specification]
#[verifier::external_body]
pub struct ExIpv4AddrN(Ipv4Addr);
#[verifier::external_type_specification]
#[verifier::external_body]
pub struct ExIpv6AddrN(Ipv6Addr);
#[verifier::external_type_specification]
pub struct ExIpv4NetN(Ipv4Net);
#[verifier::external_type_specification]
pub struct ExIpv6NetN(Ipv6Net);
#[verifier::external_type_specification]
#[verifier::external_body]
pub struct ExMplsLabelStackN(MplsLabelStack);
#[verifier::external_type_specification]
#[verifier::external_body]
pub struct ExRouteDistinguisherN(RouteDistinguisher);

/// std::io::Read as a byte stream with `left()` bytes to go (for a Cursor: len - position)
#[verifier::external_trait_specification]
#[verifier::external_trait_extension(ReadSpec via ReadSpecImpl)]
pub trait ExRead {
    type ExternalTraitSpecificationFor: io::Read;
    spec fn left(&self) -> nat;
    /// bytes the stream held when it was created (reads do not change it)
    spec fn total(&self) -> nat;
}
/// `c.read_u8()?` (byteorder): one byte, or an error at the end of the stream
#[verifier::external_body]
pub fn vx_rd_u8<T: io::Read>(c: &mut T) -> (r: Result<u8, io::Error>)
    ensures
        (*final(c)).total() == (*old(c)).total(),
        r is Ok ==> (*old(c)).left() >= 1 && (*final(c)).left() == (*old(c)).left() - 1,
        r is Err ==> (*final(c)).left() <= (*old(c)).left(),
{ use byteorder::ReadBytesExt; c.read_u8() }
/// `c.read_u16 / read_u32 / read_u64::<BigEndian>()?`
#[verifier::external_body]
pub fn vx_rd_u16<T: io::Read>(c: &mut T) -> (r: Result<u16, io::Error>)
    ensures
        (*final(c)).total() == (*old(c)).total(),
        r is Ok ==> (*old(c)).left() >= 2 && (*final(c)).left() == (*old(c)).left() - 2,
        r is Err ==> (*final(c)).left() <= (*old(c)).left(),
{ use byteorder::{BigEndian, ReadBytesExt}; c.read_u16::<BigEndian>() }
#[verifier::external_body]
pub fn vx_rd_u32<T: io::Read>(c: &mut T) -> (r: Result<u32, io::Error>)
    ensures
        (*final(c)).total() == (*old(c)).total(),
        r is Ok ==> (*old(c)).left() >= 4 && (*final(c)).left() == (*old(c)).left() - 4,
        r is Err ==> (*final(c)).left() <= (*old(c)).left(),
{ use byteorder::{BigEndian, ReadBytesExt}; c.read_u32::<BigEndian>() }
#[verifier::external_body]
pub fn vx_rd_u64<T: io::Read>(c: &mut T) -> (r: Result<u64, io::Error>)
    ensures
        (*final(c)).total() == (*old(c)).total(),
        r is Ok ==> (*old(c)).left() >= 8 && (*final(c)).left() == (*old(c)).left() - 8,
        r is Err ==> (*final(c)).left() <= (*old(c)).left(),
{ use byteorder::{BigEndian, ReadBytesExt}; c.read_u64::<BigEndian>() }
/// `c.read_exact(&mut buf)?`: fills the whole buffer or fails
#[verifier::external_body]
pub fn vx_rd_exact<T: io::Read>(c: &mut T, buf: &mut [u8]) -> (r: Result<(), io::Error>)
    ensures
        final(buf)@.len() == old(buf)@.len(), (*final(c)).total() == (*old(c)).total(),
        r is Ok ==> (*old(c)).left() >= old(buf)@.len() && (*final(c)).left() == (*old(c)).left() - old(buf)@.len(),
        r is Err ==> (*final(c)).left() <= (*old(c)).left(),
{ c.read_exact(buf) }
/// `for b in addr.iter_mut().take(n) { *b = c.read_u8()?; }`: up to min(n, len) bytes into the front of the array
#[verifier::external_body]
pub fn vx_rd_prefix<T: io::Read>(c: &mut T, addr: &mut [u8], n: usize) -> (r: Result<(), io::Error>)
    ensures
        final(addr)@.len() == old(addr)@.len(), (*final(c)).total() == (*old(c)).total(),
        (*final(c)).left() <= (*old(c)).left(),
{
    use byteorder::ReadBytesExt;
    for b in addr.iter_mut().take(n) { *b = c.read_u8()?; }
    Ok(())
}

/// number of labels of a stack; MplsLabelStack::decode reads 3-byte labels until a bottom-of-stack bit: at least one
/// label, as many as the peer cares to send
pub uninterp spec fn stack_depth(s: MplsLabelStack) -> nat;
pub assume_specification<T: io::Read>[ MplsLabelStack::decode::<T> ](c: &mut T) -> (r: Result<MplsLabelStack, io::Error>)
    ensures
        r is Ok ==> stack_depth(r->Ok_0) >= 1 && (*old(c)).left() >= 3 * stack_depth(r->Ok_0)
            && (*final(c)).left() == (*old(c)).left() - 3 * stack_depth(r->Ok_0),
        r is Err ==> (*final(c)).left() <= (*old(c)).left(),
;
pub assume_specification[ MplsLabelStack::encoded_len ](s: &MplsLabelStack) -> (r: usize)
    ensures r == 3 * stack_depth(*s),
;
pub assume_specification[ RouteDistinguisher::decode ](data: &[u8]) -> (r: Result<RouteDistinguisher, io::Error>)
;
pub assume_specification[ <Ipv4Addr as From<[u8; 4]>>::from ](a: [u8; 4]) -> (r: Ipv4Addr)
;
pub assume_specification[ <Ipv6Addr as From<[u8; 16]>>::from ](a: [u8; 16]) -> (r: Ipv6Addr)
;
pub assume_specification[ u8::div_ceil ](a: u8, b: u8) -> (r: u8)
    requires b != 0,
    ensures r as int == (a as int + b as int - 1) / (b as int),
;


#[verifier::external_type_specification]
#[verifier::external_body]
pub struct ExFamilyN(crate::bgp::Family);
#[verifier::external_type_specification]
pub struct ExIpAddrN(std::net::IpAddr);
pub uninterp spec fn fam_afi(f: crate::bgp::Family) -> u16;
pub assume_specification[ crate::bgp::Family::afi ](f: &crate::bgp::Family) -> (r: u16)
    ensures r == fam_afi(*f),
;
pub assume_specification[ Ipv4Addr::new ](a: u8, b: u8, c: u8, d: u8) -> (r: Ipv4Addr)
;


// ---- io::Cursor over a vector as such a stream -------------------------------------------------------------------------
#[verifier::external_type_specification]
#[verifier::external_body]
#[verifier::reject_recursive_types(T)]
pub struct ExCursorN<T>(io::Cursor<T>);
/// `io::Cursor::new(&buf)`: everything is still to be read
#[verifier::external_body]
pub fn vx_cursor_new<'a>(buf: &'a Vec<u8>) -> (r: io::Cursor<&'a Vec<u8>>)
    ensures r.left() == buf@.len(), r.total() == buf@.len(),
{ io::Cursor::new(buf) }
/// `c.position()`: the bytes read so far
#[verifier::external_body]
pub fn vx_cursor_position(c: &io::Cursor<&Vec<u8>>) -> (r: u64)
    ensures r as nat + c.left() == c.total(), c.left() <= c.total(),
{ c.position() }
/// `RouteDistinguisher::decode(&rd_buf).map_err(|_| malformed())?`
#[verifier::external_body]
pub fn vx_rd_decode(b: &[u8; 8]) -> (r: Result<RouteDistinguisher, io::Error>)
{ RouteDistinguisher::decode(b) }
/// `MplsLabelStack::new(vec![MplsLabel::new(0)])`: the one-label placeholder stack of a withdrawn labeled route
#[verifier::external_body]
pub fn vx_single_zero_label() -> (r: MplsLabelStack)
    ensures stack_depth(r) == 1,
{ MplsLabelStack::new(vec![crate::mpls::MplsLabel::new(0)]) }
/// `vec![0u8; n]`
#[verifier::external_body]
pub fn vx_zeroed(n: usize) -> (r: Vec<u8>)
    ensures r@.len() == n,
{ vec![0u8; n] }
/// an io::Error (InvalidData) with a formatted text
#[verifier::external_body]
pub fn vx_invalid_data() -> (r: io::Error)
{ io::Error::new(io::ErrorKind::InvalidData, "unknown flowspec component type") }

} // verus!
