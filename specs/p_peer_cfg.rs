// Prelude fragment for unit daemon_peer_cfg: foreign types that appear in PeerParams / PeerGroup / PeerConfig as opaque
// values, PeerRole as a transparent mirror, and observers for the two daemon structs kept outside Verus (Peer, Global).
use vstd::prelude::*;
use std::net::{IpAddr, Ipv4Addr};
use super::*;
verus! {

#[verifier::external_type_specification]
#[verifier::external_body]
pub struct ExIpAddrC(IpAddr);
#[verifier::external_type_specification]
#[verifier::external_body]
pub struct ExIpv4AddrC(Ipv4Addr);
#[verifier::external_type_specification]
#[verifier::external_body]
pub struct ExSessionStateC(crate::fsm::State);
#[verifier::external_type_specification]
#[verifier::external_body]
pub struct ExBfdPeerConfigC(crate::bfd::BfdPeerConfig);
#[verifier::external_type_specification]
#[verifier::external_body]
pub struct ExDispositionC(rustybgp_table::Disposition);
#[verifier::external_type_specification]
pub struct ExPeerRoleC(rustybgp_table::PeerRole);

#[verifier::external_type_specification]
#[verifier::external_body]
pub struct ExUpdateOpaqueC(rustybgp_packet::bgp::Update);
#[verifier::external_type_specification]
#[verifier::external_body]
pub struct ExIpNetC(rustybgp_packet::bgp::IpNet);

// the two daemon structs kept outside Verus (Peer holds Arc<Mutex<..>> state, Global the whole daemon state)
#[verifier::external_type_specification]
#[verifier::external_body]
pub(crate) struct ExPeerC(crate::event::Peer);
#[verifier::external_type_specification]
#[verifier::external_body]
pub(crate) struct ExGlobalC(crate::event::Global);

pub broadcast axiom fn axiom_u32_fnv_set()
    ensures #[trigger] vstd::std_specs::hash::builds_valid_hashers::<core::hash::BuildHasherDefault<fnv::FnvHasher>>(),
;

/// R11: `x.clone()` of the plain configuration values copied from a peer group (Option<String>, Option<GrPeerConfig>,
/// Option<LlgrPeerConfig>, FnvHashMap<Family, _>, RouteReflectorConfig): ASSUMED to return an equal value (derived Clone)
#[verifier::external_body]
pub fn vx_clone<T: Clone>(x: &T) -> (r: T)
    ensures r == *x,
{ x.clone() }

} // verus!
