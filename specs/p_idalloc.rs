// Prelude fragment of unit table_idalloc (C06, identifier clause): the bitmap view of IdAllocator, bit-vector lemmas,
// and the one assumed contract (`&mut v[i]` of a Vec, what IndexMut promises).
use vstd::prelude::*;
use vstd::std_specs::bits::*;
use super::*;
verus! {

/// bit `b` of `w`
pub open spec fn bit_set(w: u64, b: u64) -> bool { (w >> b) & 1 == 1 }

/// local id `l` is live (handed out and not given back): bit `l % 64` of word `l / 64`
pub open spec fn id_live(bits: Seq<u64>, l: int) -> bool {
    0 <= l && l / 64 < bits.len() && bit_set(bits[l / 64], (l % 64) as u64)
}

/// the local part (bits 23..0) of a destination identifier
pub open spec fn id_local(id: u32) -> int { (id & 0x00FF_FFFF) as int }

/// some local id below 2^24 is free: the bitmap has fewer than 2^18 words, or one of its 2^18 words is not full
pub open spec fn has_free_id(bits: Seq<u64>) -> bool {
    bits.len() < 0x40000 || (bits.len() == 0x40000 && exists|k: int| 0 <= k < bits.len() && #[trigger] bits[k] != u64::MAX)
}

pub proof fn lemma_id_compose(s: u32, l: u32)
    requires s < 256, l < 0x100_0000,
    ensures ((s << 24) | l) >> 24 == s, ((s << 24) | l) & 0x00FF_FFFF == l,
{
    assert(((s << 24) | l) >> 24 == s && ((s << 24) | l) & 0x00FF_FFFF == l) by(bit_vector) requires s < 256, l < 0x100_0000;
}

pub proof fn lemma_set_bit(w: u64, b: u64)
    requires b < 64,
    ensures forall|c: u64| c < 64 ==> #[trigger] bit_set(w | (1u64 << b), c) == (bit_set(w, c) || c == b),
        (w | (1u64 << b)) != 0,
{
    assert((w | (1u64 << b)) != 0) by(bit_vector) requires b < 64;
    assert forall|c: u64| c < 64 implies #[trigger] bit_set(w | (1u64 << b), c) == (bit_set(w, c) || c == b) by {
        assert(((w | (1u64 << b)) >> c) & 1 == 1 <==> ((w >> c) & 1 == 1 || c == b)) by(bit_vector) requires b < 64, c < 64;
    }
}

pub proof fn lemma_clear_bit(w: u64, b: u64)
    requires b < 64,
    ensures forall|c: u64| #![trigger bit_set(w & !(1u64 << b), c)] #![trigger bit_set(w, c)] c < 64 ==> bit_set(w & !(1u64 << b), c) == (bit_set(w, c) && c != b),
{
    assert forall|c: u64| #![trigger bit_set(w & !(1u64 << b), c)] #![trigger bit_set(w, c)] c < 64 implies bit_set(w & !(1u64 << b), c) == (bit_set(w, c) && c != b) by {
        assert(((w & !(1u64 << b)) >> c) & 1 == 1 <==> ((w >> c) & 1 == 1 && c != b)) by(bit_vector) requires b < 64, c < 64;
    }
}

pub proof fn lemma_bit_consts()
    ensures
        forall|c: u64| c < 64 ==> #[trigger] bit_set(u64::MAX, c),
        forall|c: u64| c < 64 ==> !#[trigger] bit_set(0u64, c),
        bit_set(1u64, 0),
        forall|c: u64| 0 < c < 64 ==> !#[trigger] bit_set(1u64, c),
        (1u32 << 24) == 0x100_0000u32,
{
    assert forall|c: u64| c < 64 implies #[trigger] bit_set(u64::MAX, c) by {
        assert((0xffff_ffff_ffff_ffffu64 >> c) & 1 == 1) by(bit_vector) requires c < 64;
    }
    assert forall|c: u64| c < 64 implies !#[trigger] bit_set(0u64, c) by { assert((0u64 >> c) & 1 == 0) by(bit_vector); }
    assert((1u64 >> 0u64) & 1 == 1) by(bit_vector);
    assert forall|c: u64| 0 < c < 64 implies !#[trigger] bit_set(1u64, c) by {
        assert((1u64 >> c) & 1 == 0) by(bit_vector) requires 0 < c < 64;
    }
    assert((1u32 << 24) == 0x100_0000u32) by(bit_vector);
}

/// `&mut v[i]` (rule R21 turns `for (i, x) in v.iter_mut().enumerate()` into an index loop that borrows one element per
/// round through this helper). ASSUMED: what `IndexMut for Vec` promises — the element at `i`, nothing else touched.
#[verifier::external_body]
pub fn vx_vec_index_mut<T>(v: &mut Vec<T>, i: usize) -> (r: &mut T)
    requires i < old(v)@.len(),
    ensures *r == old(v)@[i as int], final(v)@ == old(v)@.update(i as int, *final(r)),
{ &mut v[i] }

/*@vx:begin PRELUDE::vx_sanity*/
// must FAIL: if it verified, the assumed contracts above would be contradictory
proof fn vx_sanity__vxtwin_prelude_idalloc()
    ensures false,
{
    lemma_bit_consts(); lemma_set_bit(0, 0); lemma_clear_bit(0, 0); lemma_id_compose(0, 0);
}
/*@vx:end PRELUDE::vx_sanity*/

} // verus!
