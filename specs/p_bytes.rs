// Prelude fragment: bytes::BytesMut / BufMut as an append-only byte sequence (assumed contracts of the bytes crate).
use vstd::prelude::*;
use bytes::{BufMut, BytesMut};
verus! {

#[verifier::external_type_specification]
#[verifier::external_body]
pub struct ExBytesMut(BytesMut);

pub open spec fn be16(v: u16) -> Seq<u8> { seq![(v >> 8) as u8, (v & 0xff) as u8] }
pub open spec fn be32(v: u32) -> Seq<u8> { seq![(v >> 24) as u8, ((v >> 16) & 0xff) as u8, ((v >> 8) & 0xff) as u8, (v & 0xff) as u8] }
pub open spec fn be64(v: u64) -> Seq<u8> { be32((v >> 32) as u32) + be32((v & 0xffff_ffff) as u32) }

/// BufMut: every put_* appends the big-endian bytes of its argument (trait contract, for every implementation)
#[verifier::external_trait_specification]
#[verifier::external_trait_extension(BufMutSpec via BufMutSpecImpl)]
pub trait ExBufMut {
    type ExternalTraitSpecificationFor: BufMut;
    /// the bytes written so far
    spec fn bytes(&self) -> Seq<u8>;
    fn put_u8(&mut self, n: u8)
        ensures final(self).bytes() == old(self).bytes().push(n);
    fn put_u16(&mut self, n: u16)
        ensures final(self).bytes() == old(self).bytes() + be16(n);
    fn put_u32(&mut self, n: u32)
        ensures final(self).bytes() == old(self).bytes() + be32(n);
    fn put_u64(&mut self, n: u64)
        ensures final(self).bytes() == old(self).bytes() + be64(n);
    fn put_slice(&mut self, src: &[u8])
        ensures final(self).bytes() == old(self).bytes() + src@;
}

pub assume_specification[ BytesMut::len ](b: &BytesMut) -> (r: usize)
    ensures r == b.bytes().len(),
;
pub assume_specification[ BytesMut::with_capacity ](n: usize) -> (r: BytesMut)
    ensures r.bytes() == Seq::<u8>::empty(),
;
/// `buf.as_ref()`: the bytes written so far
pub assume_specification[ <BytesMut as AsRef<[u8]>>::as_ref ](b: &BytesMut) -> (r: &[u8])
    ensures r@ == b.bytes(),
;
/// `(&mut c.as_mut()[pos..]).write_u32::<NetworkEndian>(v).unwrap()`: overwrites four bytes in place
#[verifier::external_body]
pub fn vx_patch_u32(c: &mut BytesMut, pos: usize, v: u32)
    requires pos + 4 <= (*old(c)).bytes().len(),
    ensures
        (*final(c)).bytes().len() == (*old(c)).bytes().len(),
        (*final(c)).bytes() == (*old(c)).bytes().subrange(0, pos as int) + be32(v) + (*old(c)).bytes().subrange(pos + 4, (*old(c)).bytes().len() as int),
{
    use byteorder::{NetworkEndian, WriteBytesExt};
    (&mut c.as_mut()[pos..]).write_u32::<NetworkEndian>(v).unwrap();
}


/// `(&mut c.as_mut()[pos..pos + 2]).write_u16::<NetworkEndian>(v).unwrap()`: overwrites two bytes in place
#[verifier::external_body]
pub fn vx_patch_u16(c: &mut BytesMut, pos: usize, v: u16)
    requires pos + 2 <= (*old(c)).bytes().len(),
    ensures
        (*final(c)).bytes().len() == (*old(c)).bytes().len(),
        (*final(c)).bytes() == (*old(c)).bytes().subrange(0, pos as int) + be16(v) + (*old(c)).bytes().subrange(pos + 2, (*old(c)).bytes().len() as int),
{
    use byteorder::{NetworkEndian, WriteBytesExt};
    (&mut c.as_mut()[pos..pos + 2]).write_u16::<NetworkEndian>(v).unwrap();
}

/// `(&mut c.as_mut()[pos..end]).write_u32::<NetworkEndian>(v).unwrap()`: the window must exist (Rust's slice bounds check)
/// and hold four bytes (or `unwrap` panics); its first four bytes are overwritten
#[verifier::external_body]
pub fn vx_patch_u32_in(c: &mut BytesMut, pos: usize, end: usize, v: u32)
    requires pos + 4 <= end <= (*old(c)).bytes().len(),
    ensures
        (*final(c)).bytes().len() == (*old(c)).bytes().len(),
        (*final(c)).bytes() == (*old(c)).bytes().subrange(0, pos as int) + be32(v) + (*old(c)).bytes().subrange(pos + 4, (*old(c)).bytes().len() as int),
{
    use byteorder::{NetworkEndian, WriteBytesExt};
    (&mut c.as_mut()[pos..end]).write_u32::<NetworkEndian>(v).unwrap();
}
/// `(&mut c.as_mut()[pos..end]).write_u16::<NetworkEndian>(v).unwrap()`
#[verifier::external_body]
pub fn vx_patch_u16_in(c: &mut BytesMut, pos: usize, end: usize, v: u16)
    requires pos + 2 <= end <= (*old(c)).bytes().len(),
    ensures
        (*final(c)).bytes().len() == (*old(c)).bytes().len(),
        (*final(c)).bytes() == (*old(c)).bytes().subrange(0, pos as int) + be16(v) + (*old(c)).bytes().subrange(pos + 2, (*old(c)).bytes().len() as int),
{
    use byteorder::{NetworkEndian, WriteBytesExt};
    (&mut c.as_mut()[pos..end]).write_u16::<NetworkEndian>(v).unwrap();
}

// ---- a generic `B: BufMut + AsMut<[u8]>` destination: length and in-place patches (R11 helpers) ---------------
/// `dst.as_mut().len()`: the number of bytes written so far (a slice length: at most isize::MAX)
#[verifier::external_body]
pub fn vx_buf_len<B: BufMut + AsMut<[u8]>>(dst: &mut B) -> (r: usize)
    ensures r == (*old(dst)).bytes().len(), r <= isize::MAX as usize, (*final(dst)).bytes() == (*old(dst)).bytes(),
{ dst.as_mut().len() }
/// `(&mut dst.as_mut()[pos..]).write_u16::<NetworkEndian>(v).unwrap()` on the generic destination
#[verifier::external_body]
pub fn vx_buf_patch_u16<B: BufMut + AsMut<[u8]>>(dst: &mut B, pos: usize, v: u16)
    requires pos + 2 <= (*old(dst)).bytes().len(),
    ensures
        (*final(dst)).bytes().len() == (*old(dst)).bytes().len(),
        (*final(dst)).bytes() == (*old(dst)).bytes().subrange(0, pos as int) + be16(v) + (*old(dst)).bytes().subrange(pos + 2, (*old(dst)).bytes().len() as int),
{
    use byteorder::{NetworkEndian, WriteBytesExt};
    (&mut dst.as_mut()[pos..]).write_u16::<NetworkEndian>(v).unwrap();
}
#[verifier::external_body]
pub fn vx_buf_patch_u8<B: BufMut + AsMut<[u8]>>(dst: &mut B, pos: usize, v: u8)
    requires pos + 1 <= (*old(dst)).bytes().len(),
    ensures
        (*final(dst)).bytes().len() == (*old(dst)).bytes().len(),
        (*final(dst)).bytes() == (*old(dst)).bytes().update(pos as int, v),
{
    use byteorder::WriteBytesExt;
    (&mut dst.as_mut()[pos..]).write_u8(v).unwrap();
}
/// `dst.put_bytes(0, n)`: n zero bytes
#[verifier::external_body]
pub fn vx_put_zeros<B: BufMut>(dst: &mut B, n: usize)
    ensures (*final(dst)).bytes() == (*old(dst)).bytes() + Seq::new(n as nat, |i: int| 0u8),
{ dst.put_bytes(0, n); }

/// Vec<u8>'s BufMut implementation appends to the vector (assumed: bytes crate)
impl BufMutSpecImpl for Vec<u8> {
    open spec fn bytes(&self) -> Seq<u8> { self@ }
}


#[verifier::external_type_specification]
#[verifier::external_body]
pub struct ExIoError(std::io::Error);

#[verifier::external_trait_specification]
pub trait ExEncoder<Item> {
    type ExternalTraitSpecificationFor: tokio_util::codec::Encoder<Item>;
    type Error: From<std::io::Error>;
    fn encode(&mut self, item: Item, dst: &mut BytesMut) -> Result<(), Self::Error>;
}

} // verus!
