// Prelude fragment for unit daemon_gr_neg: the capability lists of the two OPENs as sequences; the first GR / LLGR
// capability of a list; std iterator algebra used by PeerSession::negotiate_gr / negotiate_llgr as R11 / R12 helpers.
use vstd::prelude::*;
use rustybgp_packet::bgp::{Capability, Family};
use super::*;
verus! {

// (core::time::Duration is specified as an opaque type by vstd)
/// Duration::from_secs as a function of the seconds
pub uninterp spec fn dur_of_secs(s: u64) -> std::time::Duration;
pub assume_specification[ std::time::Duration::from_secs ](s: u64) -> (r: std::time::Duration)
    ensures r == dur_of_secs(s),
;

/// the first Graceful Restart capability of an OPEN's capability list: (flags, restart time, families with their flags)
pub open spec fn first_gr(caps: Seq<Capability>) -> Option<(u8, u16, Seq<(Family, u8)>)>
    decreases caps.len(),
{
    if caps.len() == 0 { None } else {
        match caps[0] {
            Capability::GracefulRestart { flags, restart_time, families } => Some((flags, restart_time, families@)),
            _ => first_gr(caps.subrange(1, caps.len() as int)),
        }
    }
}
/// the first Long-Lived Graceful Restart capability: (family, flags, stale time) triples
pub open spec fn first_llgr(caps: Seq<Capability>) -> Option<Seq<(Family, u8, u32)>>
    decreases caps.len(),
{
    if caps.len() == 0 { None } else {
        match caps[0] {
            Capability::LongLivedGracefulRestart(v) => Some(v@),
            _ => first_llgr(caps.subrange(1, caps.len() as int)),
        }
    }
}
pub open spec fn gr_lists(fams: Seq<(Family, u8)>, f: Family) -> bool {
    exists|i: int| 0 <= i < fams.len() && (#[trigger] fams[i]).0 == f
}
pub open spec fn llgr_lists(fams: Seq<(Family, u8, u32)>, f: Family) -> bool {
    exists|i: int| 0 <= i < fams.len() && (#[trigger] fams[i]).0 == f
}

/// LLGR is in force for family f with stale time s seconds, given the peer's LLGR list and our own stale time `lt` for f:
/// the peer lists f, and the time that applies — the one of the peer's first entry for f, ours if that is 0 — is not 0
pub open spec fn llgr_on(p: Seq<(Family, u8, u32)>, f: Family, lt: u32, s: u64) -> bool {
    exists|i: int| 0 <= i < p.len() && (#[trigger] p[i]).0 == f && (forall|j: int| 0 <= j < i ==> (#[trigger] p[j]).0 != f)
        && s == (if p[i].2 > 0 { p[i].2 } else { lt }) as u64 && s != 0
}

/// the value the LLGR filter_map closure returns for the local entry e: the family with the stale time that applies
pub open spec fn llgr_some(p: Seq<(Family, u8, u32)>, e: (Family, u32), y: (Family, std::time::Duration)) -> bool {
    y.0 == e.0 && exists|s: u64| #[trigger] llgr_on(p, e.0, e.1, s) && y.1 == dur_of_secs(s)
}
/// ... or nothing: LLGR is not in force for e's family
pub open spec fn llgr_none(p: Seq<(Family, u8, u32)>, e: (Family, u32)) -> bool {
    forall|s: u64| !#[trigger] llgr_on(p, e.0, e.1, s)
}

/// the stale time that applies is determined by the lists (the first entry of the peer's list for the family is unique)
pub proof fn lemma_llgr_on_unique(p: Seq<(Family, u8, u32)>, f: Family, lt: u32, s1: u64, s2: u64)
    requires llgr_on(p, f, lt, s1), llgr_on(p, f, lt, s2),
    ensures s1 == s2,
{
    let i1 = choose|i: int| 0 <= i < p.len() && (#[trigger] p[i]).0 == f && (forall|j: int| 0 <= j < i ==> (#[trigger] p[j]).0 != f)
        && s1 == (if p[i].2 > 0 { p[i].2 } else { lt }) as u64 && s1 != 0;
    let i2 = choose|i: int| 0 <= i < p.len() && (#[trigger] p[i]).0 == f && (forall|j: int| 0 <= j < i ==> (#[trigger] p[j]).0 != f)
        && s2 == (if p[i].2 > 0 { p[i].2 } else { lt }) as u64 && s2 != 0;
    if i1 < i2 { assert(p[i1].0 != f); }
    if i2 < i1 { assert(p[i2].0 != f); }
}

/// R12: `v.iter().filter_map(f).collect::<Vec<_>>()`; the closure stays verbatim at the call site and is verified there;
/// ASSUMED: std collects exactly the values the closure returns as Some
#[verifier::external_body]
pub fn vx_filtermap_collect_m<T, U, F: Fn(&T) -> Option<U>>(v: &[T], f: F) -> (r: Vec<U>)
    requires forall|i: int| 0 <= i < v@.len() ==> call_requires(f, (&v@[i],)),
    ensures
        forall|i: int| #![trigger r@[i]] 0 <= i < r@.len() ==> exists|k: int| #![trigger v@[k]] 0 <= k < v@.len() && call_ensures(f, (&v@[k],), Some(r@[i])),
        forall|k: int| #![trigger v@[k]] 0 <= k < v@.len() ==>
            (call_ensures(f, (&v@[k],), None::<U>) || exists|y: U| #![trigger r@.contains(y)] call_ensures(f, (&v@[k],), Some(y)) && r@.contains(y)),
{
    v.iter().filter_map(|x| f(x)).collect()
}

/// R12: `v.into_iter().filter(p).collect::<Vec<_>>()`; the predicate closure stays verbatim at the call site and is
/// verified there; ASSUMED: std keeps exactly the elements for which the predicate returned true, in order
#[verifier::external_body]
pub fn vx_into_filter_collect<T, F: Fn(&T) -> bool>(v: Vec<T>, f: F) -> (r: Vec<T>)
    requires forall|x: &T| call_requires(f, (x,)),
    ensures
        forall|i: int| #![trigger r@[i]] 0 <= i < r@.len() ==> v@.contains(r@[i]) && call_ensures(f, (&r@[i],), true),
        forall|i: int| #![trigger v@[i]] 0 <= i < v@.len() ==> (r@.contains(v@[i]) || call_ensures(f, (&v@[i],), false)),
{
    v.into_iter().filter(|x| f(x)).collect()
}

} // verus!
