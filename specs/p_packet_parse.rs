// Prelude fragment for unit packet_parse: io::Cursor over the message buffer as (buffer, position);
// byteorder reads as R11 helpers whose `requires` turn the `.unwrap()` of the real code into an obligation at the
// call site; R11b shims for callees that take `&mut dyn io::Read` (Verus rejects the unsizing coercion).
use vstd::prelude::*;
use crate::bgp::*;
use std::io::Cursor;
use byteorder::{NetworkEndian, ReadBytesExt};
use super::*;
verus! {

#[verifier::external_type_specification]
#[verifier::external_body]
#[verifier::reject_recursive_types(T)]
pub struct ExCursor<T>(Cursor<T>);

pub uninterp spec fn cur_pos<T>(c: Cursor<T>) -> u64;
pub uninterp spec fn cur_inner<T>(c: Cursor<T>) -> T;
/// bytes behind the cursor
pub uninterp spec fn cur_data<T>(c: Cursor<T>) -> Seq<u8>;
/// a cursor over `&&[u8]` (the message) / over `&Vec<u8>` (an attribute body) reads that slice / vector
pub broadcast axiom fn axiom_cur_data_slice(c: Cursor<&&[u8]>)
    ensures #[trigger] cur_data(c) == (**cur_inner(c))@,
;
pub broadcast axiom fn axiom_cur_data_vec(c: Cursor<&Vec<u8>>)
    ensures #[trigger] cur_data(c) == (*cur_inner(c))@,
;

pub assume_specification<T>[ Cursor::<T>::new ](inner: T) -> (r: Cursor<T>)
    ensures cur_pos(r) == 0, cur_inner(r) == inner,
;
pub assume_specification<T>[ Cursor::<T>::position ](c: &Cursor<T>) -> (r: u64)
    ensures r == cur_pos(*c),
;
pub assume_specification<T>[ Cursor::<T>::set_position ](c: &mut Cursor<T>, pos: u64)
    ensures cur_pos(*final(c)) == pos, cur_inner(*final(c)) == cur_inner(*old(c)), cur_data(*final(c)) == cur_data(*old(c)),
;
pub assume_specification<T>[ Cursor::<T>::get_ref ](c: &Cursor<T>) -> (r: &T)
    ensures *r == cur_inner(*c),
;

pub open spec fn be16(s: Seq<u8>, o: int) -> u16 { ((s[o] as u16) << 8 | (s[o + 1] as u16)) as u16 }

// ---- R11: `c.read_u8().unwrap()` etc. --------------------------------------------------------------
#[verifier::external_body]
pub fn vx_read_u8<T: AsRef<[u8]>>(c: &mut Cursor<T>) -> (r: u8)
    requires cur_pos(*old(c)) + 1 <= cur_data(*old(c)).len(),
    ensures cur_pos(*final(c)) == cur_pos(*old(c)) + 1, cur_inner(*final(c)) == cur_inner(*old(c)),
        cur_data(*final(c)) == cur_data(*old(c)),
        r == cur_data(*old(c))[cur_pos(*old(c)) as int],
{ c.read_u8().unwrap() }

#[verifier::external_body]
pub fn vx_read_u16<T: AsRef<[u8]>>(c: &mut Cursor<T>) -> (r: u16)
    requires cur_pos(*old(c)) + 2 <= cur_data(*old(c)).len(),
    ensures cur_pos(*final(c)) == cur_pos(*old(c)) + 2, cur_inner(*final(c)) == cur_inner(*old(c)),
        cur_data(*final(c)) == cur_data(*old(c)),
        r == be16(cur_data(*old(c)), cur_pos(*old(c)) as int),
{ c.read_u16::<NetworkEndian>().unwrap() }

#[verifier::external_body]
pub fn vx_read_u32<T: AsRef<[u8]>>(c: &mut Cursor<T>) -> (r: u32)
    requires cur_pos(*old(c)) + 4 <= cur_data(*old(c)).len(),
    ensures cur_pos(*final(c)) == cur_pos(*old(c)) + 4, cur_inner(*final(c)) == cur_inner(*old(c)),
        cur_data(*final(c)) == cur_data(*old(c)),
{ c.read_u32::<NetworkEndian>().unwrap() }

/// `c.read_u16::<NetworkEndian>()` whose error is mapped by the caller: Err iff fewer than 2 bytes are left
#[verifier::external_body]
pub fn vx_try_read_u16<T: AsRef<[u8]>>(c: &mut Cursor<T>) -> (r: Result<u16, ()>)
    ensures
        cur_inner(*final(c)) == cur_inner(*old(c)), cur_data(*final(c)) == cur_data(*old(c)),
        r is Ok <==> cur_pos(*old(c)) + 2 <= cur_data(*old(c)).len(),
        r is Ok ==> cur_pos(*final(c)) == cur_pos(*old(c)) + 2 && r->Ok_0 == be16(cur_data(*old(c)), cur_pos(*old(c)) as int),
        r is Err ==> cur_pos(*old(c)) <= cur_pos(*final(c)) <= cur_pos(*old(c)) + 2,
{ c.read_u16::<NetworkEndian>().map_err(|_| ()) }


/// R11: `x.to_be_bytes().to_vec()` for a u16
#[verifier::external_body]
pub fn vx_u16_be_vec(x: u16) -> (r: Vec<u8>)
    ensures r@.len() == 2,
{ x.to_be_bytes().to_vec() }

pub assume_specification<T: Clone>[ <[T]>::to_vec ](s: &[T]) -> (r: Vec<T>)
    ensures r@.len() == s@.len(),
;

// ---- packet-crate functions outside the unit (assumed total; HoldTime::new as its code states) --------------
pub uninterp spec fn holdtime_secs(h: HoldTime) -> u16;
pub assume_specification[ HoldTime::new ](secs: u16) -> (r: Option<HoldTime>)
    ensures
        (secs == 1 || secs == 2) ==> r is None,
        !(secs == 1 || secs == 2) ==> r is Some && holdtime_secs(r->Some_0) == secs,
;
pub uninterp spec fn attr_binary(a: Attribute) -> Option<Seq<u8>>;
pub assume_specification[ Attribute::binary ](a: &Attribute) -> (r: Option<&Vec<u8>>)
    ensures
        r is None <==> attr_binary(*a) is None,
        r is Some ==> attr_binary(*a) == Some(r->Some_0@),
;
pub uninterp spec fn attr_flags(a: Attribute) -> u8;
pub assume_specification[ Attribute::new_opaque ](code: u8, flags: u8, data: Vec<u8>) -> (r: Attribute)
    ensures attr_code(r) == code, attr_flags(r) == flags,
;
pub assume_specification[ Nexthop::from_bytes ](b: &[u8]) -> (r: Option<Nexthop>)
;
pub assume_specification[ crate::bgp::Notification::from_notification ](code: u8, subcode: u8, data: Vec<u8>) -> (r: crate::bgp::Notification)
;

// ---- std::net::Ipv4Addr as its 32 bits ---------------------------------------------------------------
#[verifier::external_type_specification]
#[verifier::external_body]
pub struct ExIpv4Addr(std::net::Ipv4Addr);
pub uninterp spec fn ip4_bits(a: std::net::Ipv4Addr) -> u32;
pub assume_specification[ <std::net::Ipv4Addr as From<u32>>::from ](x: u32) -> (r: std::net::Ipv4Addr)
    ensures ip4_bits(r) == x,
;
pub assume_specification[ std::net::Ipv4Addr::is_unspecified ](a: &std::net::Ipv4Addr) -> (r: bool)
    ensures r == (ip4_bits(*a) == 0),
;
pub assume_specification[ std::net::Ipv4Addr::is_broadcast ](a: &std::net::Ipv4Addr) -> (r: bool)
    ensures r == (ip4_bits(*a) == 0xFFFF_FFFFu32),
;
pub assume_specification[ std::net::Ipv4Addr::is_multicast ](a: &std::net::Ipv4Addr) -> (r: bool)
    ensures r == (ip4_bits(*a) >> 28 == 0xEu32),
;

} // verus!
