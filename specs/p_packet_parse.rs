// Prelude fragment for unit packet_parse: io::Cursor over the message buffer as (buffer, position);
// byteorder reads as R11 helpers whose `requires` turn the `.unwrap()` of the real code into an obligation at the
// call site; R11b shims for callees that take `&mut dyn io::Read` (Verus rejects the unsizing coercion).
use vstd::prelude::*;
use crate::bgp::*;
use std::io::Cursor;
use byteorder::{NetworkEndian, ReadBytesExt};
use super::*;
verus! {

/// R11: `x.to_be_bytes().to_vec()` for a u16
#[verifier::external_body]
pub fn vx_u16_be_vec(x: u16) -> (r: Vec<u8>)
    ensures r@.len() == 2,
{ x.to_be_bytes().to_vec() }

pub assume_specification<T: Clone>[ <[T]>::to_vec ](s: &[T]) -> (r: Vec<T>)
    ensures r@.len() == s@.len(),
;

// ---- packet-crate functions outside the unit (assumed total; HoldTime::new as its code states) --------------
pub uninterp spec fn holdtime_secs(h: HoldTime) -> u16;
pub assume_specification[ HoldTime::new ](secs: u16) -> (r: Option<HoldTime>)
    ensures
        (secs == 1 || secs == 2) ==> r is None,
        !(secs == 1 || secs == 2) ==> r is Some && holdtime_secs(r->Some_0) == secs,
;
pub uninterp spec fn attr_binary(a: Attribute) -> Option<Seq<u8>>;
pub assume_specification[ Attribute::binary ](a: &Attribute) -> (r: Option<&Vec<u8>>)
    ensures
        r is None <==> attr_binary(*a) is None,
        r is Some ==> attr_binary(*a) == Some(r->Some_0@),
;
pub uninterp spec fn attr_flags(a: Attribute) -> u8;
pub assume_specification[ Attribute::new_opaque ](code: u8, flags: u8, data: Vec<u8>) -> (r: Attribute)
    ensures attr_code(r) == code, attr_flags(r) == flags,
;
pub assume_specification[ Nexthop::from_bytes ](b: &[u8]) -> (r: Option<Nexthop>)
;
pub assume_specification[ crate::bgp::Notification::from_notification ](code: u8, subcode: u8, data: Vec<u8>) -> (r: crate::bgp::Notification)
;

// ---- std::net::Ipv4Addr as its 32 bits ---------------------------------------------------------------
#[verifier::external_type_specification]
#[verifier::external_body]
pub struct ExIpv4Addr(std::net::Ipv4Addr);
pub uninterp spec fn ip4_bits(a: std::net::Ipv4Addr) -> u32;
pub assume_specification[ <std::net::Ipv4Addr as From<u32>>::from ](x: u32) -> (r: std::net::Ipv4Addr)
    ensures ip4_bits(r) == x,
;
pub assume_specification[ std::net::Ipv4Addr::is_unspecified ](a: &std::net::Ipv4Addr) -> (r: bool)
    ensures r == (ip4_bits(*a) == 0),
;
pub assume_specification[ std::net::Ipv4Addr::is_broadcast ](a: &std::net::Ipv4Addr) -> (r: bool)
    ensures r == (ip4_bits(*a) == 0xFFFF_FFFFu32),
;
pub assume_specification[ std::net::Ipv4Addr::is_multicast ](a: &std::net::Ipv4Addr) -> (r: bool)
    ensures r == (ip4_bits(*a) >> 28 == 0xEu32),
;

} // verus!
