// Prelude fragment: assumed contracts on packet-crate functions used by daemon/src/fsm.rs.
use vstd::prelude::*;
use vstd::std_specs::cmp::OrdSpec;
use rustybgp_packet::bgp::{self, Capability, Family, HoldTime, PeerCodec};
use rustybgp_packet::Notification;
use fnv::FnvHashMap;
use super::*;
verus! {

#[verifier::external_type_specification]
#[verifier::external_body]
pub struct ExUpdateOpaque(rustybgp_packet::bgp::Update);

// ---- packet crate: HoldTime (contract = the one a packet unit proves for HoldTime::*) ---------

pub uninterp spec fn holdtime_secs(h: HoldTime) -> u16;

/// what `parse_message` guarantees for a received OPEN and `HoldTime::new` for a built one
pub open spec fn holdtime_valid(h: HoldTime) -> bool {
    holdtime_secs(h) == 0 || holdtime_secs(h) >= 3
}

pub assume_specification[ HoldTime::new ](secs: u16) -> (r: Option<HoldTime>)
    ensures
        (secs == 1 || secs == 2) ==> r is None,
        !(secs == 1 || secs == 2) ==> r is Some && holdtime_secs(r->Some_0) == secs,
;

pub assume_specification[ HoldTime::seconds ](h: HoldTime) -> (r: u16)
    ensures r == holdtime_secs(h),
;

pub assume_specification[ <HoldTime as Clone>::clone ](h: &HoldTime) -> (r: HoldTime)
    ensures r == *h,
;

#[verifier::external_body]
pub const fn vx_holdtime_disabled() -> (r: HoldTime)
    ensures holdtime_secs(r) == 0,
{
    HoldTime::DISABLED
}

// ---- packet crate: capability negotiation (opaque here; C16 unit owns it) ----------------------

pub uninterp spec fn spec_negotiate(local: Seq<Capability>, remote: Seq<Capability>) -> PeerCodec;

pub assume_specification[ PeerCodec::negotiate ](local: &[Capability], remote: &[Capability]) -> (r: PeerCodec)
    ensures r == spec_negotiate(local@, remote@),
;

} // verus!
