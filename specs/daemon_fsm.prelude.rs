// Prelude of unit daemon_fsm: assumed contracts on items OUTSIDE the unit (other crates, std).
// Everything here is part of the trusted base and is listed in the evidence.
use vstd::prelude::*;
use vstd::std_specs::cmp::OrdSpec;
use rustybgp_packet::bgp::{self, Capability, Family, HoldTime, PeerCodec};
use rustybgp_packet::Notification;
use fnv::FnvHashMap;

verus! {

// ---- foreign types ----------------------------------------------------------------------------

#[verifier::external_type_specification]
pub struct ExMessage(bgp::Message);

#[verifier::external_type_specification]
pub struct ExOpen(bgp::Open);

#[verifier::external_type_specification]
#[verifier::external_body]
pub struct ExUpdate(bgp::Update);

#[verifier::external_type_specification]
pub struct ExNotification(Notification);

#[verifier::external_type_specification]
pub struct ExCapability(Capability);

#[verifier::external_type_specification]
#[verifier::external_body]
pub struct ExFamily(Family);

#[verifier::external_type_specification]
#[verifier::external_body]
pub struct ExHoldTime(HoldTime);

#[verifier::external_type_specification]
#[verifier::external_body]
pub struct ExPeerCodec(PeerCodec);

#[verifier::external_type_specification]
#[verifier::external_body]
pub struct ExFnvHasher(fnv::FnvHasher);

#[verifier::external_type_specification]
#[verifier::external_body]
#[verifier::reject_recursive_types_in_ground_variants(H)]
pub struct ExBuildHasherDefault<H>(core::hash::BuildHasherDefault<H>);

// ---- packet crate: HoldTime (contract = the one a packet unit proves for HoldTime::*) ---------

pub uninterp spec fn holdtime_secs(h: HoldTime) -> u16;

/// what `parse_message` guarantees for a received OPEN and `HoldTime::new` for a built one
pub open spec fn holdtime_valid(h: HoldTime) -> bool {
    holdtime_secs(h) == 0 || holdtime_secs(h) >= 3
}

pub assume_specification[ HoldTime::new ](secs: u16) -> (r: Option<HoldTime>)
    ensures
        (secs == 1 || secs == 2) ==> r is None,
        !(secs == 1 || secs == 2) ==> r is Some && holdtime_secs(r->Some_0) == secs,
;

pub assume_specification[ HoldTime::seconds ](h: HoldTime) -> (r: u16)
    ensures r == holdtime_secs(h),
;

pub assume_specification[ <HoldTime as Clone>::clone ](h: &HoldTime) -> (r: HoldTime)
    ensures r == *h,
;

#[verifier::external_body]
pub const fn vx_holdtime_disabled() -> (r: HoldTime)
    ensures holdtime_secs(r) == 0,
{
    HoldTime::DISABLED
}

// ---- packet crate: capability negotiation (opaque here; C16 unit owns it) ----------------------

pub uninterp spec fn spec_negotiate(local: Seq<Capability>, remote: Seq<Capability>) -> PeerCodec;

pub assume_specification[ PeerCodec::negotiate ](local: &[Capability], remote: &[Capability]) -> (r: PeerCodec)
    ensures r == spec_negotiate(local@, remote@),
;

pub assume_specification[ <Capability as Clone>::clone ](c: &Capability) -> (r: Capability)
    ensures r == *c,
;

pub assume_specification[ <bgp::Message as Clone>::clone ](m: &bgp::Message) -> (r: bgp::Message)
    ensures r == *m,
;

pub assume_specification[ <Family as PartialEq>::eq ](a: &Family, b: &Family) -> (r: bool)
    ensures r == (*a == *b),
;

pub assume_specification[ <Family as Clone>::clone ](a: &Family) -> (r: Family)
    ensures r == *a,
;

// ---- field accessors for foreign enums (the `->` syntax needs the defining crate) ---------------
pub open spec fn msg_open(m: bgp::Message) -> bgp::Open {
    match m { bgp::Message::Open(o) => o, _ => arbitrary() }
}
pub open spec fn msg_notif(m: bgp::Message) -> Notification {
    match m { bgp::Message::Notification(n) => n, _ => arbitrary() }
}
pub open spec fn msg_rr_family(m: bgp::Message) -> Family {
    match m { bgp::Message::RouteRefresh { family } => family, _ => arbitrary() }
}

// ---- hashing: fnv + derived Hash/Eq of Family behave like a proper key (assumed) -----------------
pub broadcast axiom fn axiom_family_obeys_key_model()
    ensures #[trigger] vstd::std_specs::hash::obeys_key_model::<Family>(),
;
pub broadcast axiom fn axiom_fnv_builds_valid_hashers()
    ensures #[trigger] vstd::std_specs::hash::builds_valid_hashers::<core::hash::BuildHasherDefault<fnv::FnvHasher>>(),
;

// ---- std ---------------------------------------------------------------------------------------

#[verifier::allow(undeclared_external_trait)]
pub assume_specification<T: Ord + core::marker::Destruct>[ std::cmp::min ](a: T, b: T) -> (r: T)
    ensures r == (if b.cmp_spec(&a) == core::cmp::Ordering::Less { b } else { a }),
;

pub assume_specification<T: Default>[ std::mem::take ](v: &mut T) -> (r: T)
    ensures r == *old(v),
;

/// `slice.iter().any(f)` (rewrite R12): verified loop with the complete contract vstd lacks
pub fn vx_any<T, F: Fn(&T) -> bool>(v: &[T], f: F) -> (r: bool)
    requires forall|i: int| 0 <= i < v@.len() ==> call_requires(f, (&v@[i],)),
    ensures
        r ==> exists|i: int| 0 <= i < v@.len() && call_ensures(f, (&v@[i],), true),
        !r ==> forall|i: int| 0 <= i < v@.len() ==> call_ensures(f, (&v@[i],), false),
{
    let mut k: usize = 0;
    while k < v.len()
        invariant
            0 <= k <= v@.len(),
            forall|i: int| 0 <= i < v@.len() ==> call_requires(f, (&v@[i],)),
            forall|i: int| 0 <= i < k ==> call_ensures(f, (&v@[i],), false),
        decreases v@.len() - k,
    {
        if f(&v[k]) {
            return true;
        }
        k += 1;
    }
    false
}

/*@vx:begin PRELUDE::vx_sanity*/
// must FAIL: if it verified, the assumed contracts above would be contradictory
proof fn vx_sanity__vxtwin_prelude()
    ensures false,
{
}
/*@vx:end PRELUDE::vx_sanity*/

} // verus!
