// Prelude fragment for units in the table crate: packet::Attribute as an opaque value with spec accessors
// (contracts assumed here = the ones the packet crate's accessors obviously satisfy: field reads),
// std comparison helpers, verified replacements for slice iterator algebra (R12).
use vstd::prelude::*;
use vstd::std_specs::cmp::OrdSpec;
use rustybgp_packet::{self as packet, Attribute, Family, bgp};
use std::sync::Arc;
verus! {

#[verifier::external_type_specification]
#[verifier::external_body]
pub struct ExAttribute(Attribute);

#[verifier::external_type_specification]
pub struct ExNexthop(bgp::Nexthop);

#[verifier::external_type_specification]
pub struct ExNlri(packet::Nlri);
#[verifier::external_type_specification]
pub struct ExIpv4Net(bgp::Ipv4Net);
#[verifier::external_type_specification]
pub struct ExIpv6Net(bgp::Ipv6Net);
#[verifier::external_type_specification]
#[verifier::external_body]
pub struct ExIpv4Addr(std::net::Ipv4Addr);
#[verifier::external_type_specification]
#[verifier::external_body]
pub struct ExIpv6Addr(std::net::Ipv6Addr);
#[verifier::external_type_specification] #[verifier::external_body] pub struct ExMupNlri(packet::mup::MupNlri);
#[verifier::external_type_specification] #[verifier::external_body] pub struct ExVpnV4Nlri(packet::vpn::VpnV4Nlri);
#[verifier::external_type_specification] #[verifier::external_body] pub struct ExVpnV6Nlri(packet::vpn::VpnV6Nlri);
#[verifier::external_type_specification] #[verifier::external_body] pub struct ExLabeledV4Nlri(packet::labeled::LabeledV4Nlri);
#[verifier::external_type_specification] #[verifier::external_body] pub struct ExLabeledV6Nlri(packet::labeled::LabeledV6Nlri);
#[verifier::external_type_specification] #[verifier::external_body] pub struct ExFlowspecV4Nlri(packet::flowspec::FlowspecV4Nlri);
#[verifier::external_type_specification] #[verifier::external_body] pub struct ExFlowspecV6Nlri(packet::flowspec::FlowspecV6Nlri);
#[verifier::external_type_specification] #[verifier::external_body] pub struct ExFlowspecVpnV4Nlri(packet::flowspec::FlowspecVpnV4Nlri);
#[verifier::external_type_specification] #[verifier::external_body] pub struct ExFlowspecVpnV6Nlri(packet::flowspec::FlowspecVpnV6Nlri);
#[verifier::external_type_specification] #[verifier::external_body] pub struct ExBgpLsNlri(packet::ls::BgpLsNlri);
#[verifier::external_type_specification] #[verifier::external_body] pub struct ExSrPolicyNlri(packet::sr_policy::SrPolicyNlri);
#[verifier::external_type_specification] #[verifier::external_body] pub struct ExEvpnNlri(packet::evpn::EvpnNlri);
#[verifier::external_type_specification] #[verifier::external_body] pub struct ExRtcNlri(packet::rtc::RtcNlri);

/// the octets of an address (network order)
pub uninterp spec fn ip4_octets(a: std::net::Ipv4Addr) -> Seq<u8>;
pub uninterp spec fn ip6_octets(a: std::net::Ipv6Addr) -> Seq<u8>;
pub broadcast axiom fn axiom_ip4_octets_len(a: std::net::Ipv4Addr)
    ensures #[trigger] ip4_octets(a).len() == 4,
;
pub broadcast axiom fn axiom_ip6_octets_len(a: std::net::Ipv6Addr)
    ensures #[trigger] ip6_octets(a).len() == 16,
;
pub assume_specification[ std::net::Ipv4Addr::octets ](a: &std::net::Ipv4Addr) -> (r: [u8; 4])
    ensures r@ == ip4_octets(*a),
;
pub assume_specification[ std::net::Ipv6Addr::octets ](a: &std::net::Ipv6Addr) -> (r: [u8; 16])
    ensures r@ == ip6_octets(*a),
;
pub assume_specification<T: Clone>[ <[T]>::to_vec ](s: &[T]) -> (r: Vec<T>)
    ensures r@.len() == s@.len(),
;
/// `[u8]::to_vec` copies the bytes (the generic contract above only gives the length)
#[verifier::external_body]
pub fn vx_bytes_to_vec(s: &[u8]) -> (r: Vec<u8>)
    ensures r@ == s@,
{ s.to_vec() }

#[verifier::external_type_specification]
#[verifier::external_body]
pub struct ExFamily(Family);

#[verifier::external_type_specification]
pub struct ExIpAddr(std::net::IpAddr);

pub uninterp spec fn attr_code(a: Attribute) -> u8;
pub uninterp spec fn attr_value(a: Attribute) -> Option<u32>;
pub uninterp spec fn attr_binary(a: Attribute) -> Option<Seq<u8>>;
/// AS_PATH hop count as computed by packet::Attribute::as_path_length (AS_SET = 1, AS_SEQUENCE = count,
/// confederation segments = 0); the packet unit owns its definition
pub uninterp spec fn attr_hops(a: Attribute) -> usize;

pub assume_specification[ Attribute::code ](a: &Attribute) -> (r: u8)
    ensures r == attr_code(*a),
;
pub assume_specification[ Attribute::value ](a: &Attribute) -> (r: Option<u32>)
    ensures r == attr_value(*a),
;
pub assume_specification[ Attribute::binary ](a: &Attribute) -> (r: Option<&Vec<u8>>)
    ensures
        r is None <==> attr_binary(*a) is None,
        r is Some ==> attr_binary(*a) == Some(r->Some_0@),
;
pub assume_specification[ Attribute::as_path_length ](a: &Attribute) -> (r: usize)
    ensures r == attr_hops(*a),
;

/// MAC-mobility sequence number of an EVPN route's attributes (packet::evpn::mac_mobility), opaque here
pub uninterp spec fn sp_mac_mobility(attrs: Seq<Attribute>) -> Option<(u32, bool)>;
pub assume_specification[ packet::evpn::mac_mobility ](attrs: &[Attribute]) -> (r: Option<(u32, bool)>)
    ensures r == sp_mac_mobility(attrs@),
;

pub assume_specification<T: ?Sized + core::marker::MetaSized, A: core::alloc::Allocator>[ <Arc<T, A> as AsRef<T>>::as_ref ](a: &Arc<T, A>) -> (r: &T)
    ensures r == &**a,
;

// ---- std::cmp ------------------------------------------------------------------------------------
pub open spec fn ord_reverse(o: core::cmp::Ordering) -> core::cmp::Ordering {
    match o {
        core::cmp::Ordering::Less => core::cmp::Ordering::Greater,
        core::cmp::Ordering::Equal => core::cmp::Ordering::Equal,
        core::cmp::Ordering::Greater => core::cmp::Ordering::Less,
    }
}
pub assume_specification[ core::cmp::Ordering::reverse ](o: core::cmp::Ordering) -> (r: core::cmp::Ordering)
    ensures r == ord_reverse(o),
;
#[verifier::allow(undeclared_external_trait)]
pub assume_specification<F: FnOnce() -> core::cmp::Ordering + core::marker::Destruct>[ core::cmp::Ordering::then_with ](o: core::cmp::Ordering, f: F) -> (r: core::cmp::Ordering)
    requires o == core::cmp::Ordering::Equal ==> call_requires(f, ()),
    ensures
        o != core::cmp::Ordering::Equal ==> r == o,
        o == core::cmp::Ordering::Equal ==> call_ensures(f, (), r),
;
pub assume_specification[ <core::cmp::Ordering as PartialEq>::eq ](a: &core::cmp::Ordering, b: &core::cmp::Ordering) -> (r: bool)
    ensures r == (*a == *b),
;
pub open spec fn bool_cmp(a: bool, b: bool) -> core::cmp::Ordering {
    if a == b { core::cmp::Ordering::Equal } else if !a && b { core::cmp::Ordering::Less } else { core::cmp::Ordering::Greater }
}
pub assume_specification[ <bool as Ord>::cmp ](a: &bool, b: &bool) -> (r: core::cmp::Ordering)
    ensures r == bool_cmp(*a, *b),
;
pub open spec fn int_cmp(a: int, b: int) -> core::cmp::Ordering {
    if a == b { core::cmp::Ordering::Equal } else if a < b { core::cmp::Ordering::Less } else { core::cmp::Ordering::Greater }
}

/*@vx:begin PRELUDE::vx_sanity*/
// must FAIL: if it verified, the assumed contracts above would be contradictory
proof fn vx_sanity__vxtwin_prelude()
    ensures false,
{
}
/*@vx:end PRELUDE::vx_sanity*/

} // verus!
