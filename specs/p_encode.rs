// Prelude fragment for unit packet_encode: a generic `B: BufMut + AsMut<[u8]>` destination as an append-only byte
// sequence (p_bytes.rs) whose length can be read, the per-NLRI encoder as an uninterpreted byte string.
use vstd::prelude::*;
use bytes::BufMut;
use std::sync::Arc;
use crate::bgp::*;
use super::*;
verus! {

#[verifier::external_type_specification]
#[verifier::external_body]
pub struct ExNlriEnc(Nlri);
/// the wire form of one NLRI (Nlri::encode and the per-family encoders below it: not under contract); never empty, shorter than a BGP message (assumed)
pub uninterp spec fn nlri_wire(n: Nlri) -> Seq<u8>;
pub broadcast axiom fn axiom_nlri_wire_nonempty(n: Nlri)
    ensures 1 <= #[trigger] nlri_wire(n).len() <= 65535,
;
pub uninterp spec fn pn_nlri(p: PathNlri) -> Nlri;
pub uninterp spec fn pn_path_id(p: PathNlri) -> u32;
/// `item.nlri.encode(dst).unwrap()` for a PathNlri
#[verifier::external_body]
pub fn vx_pathnlri_encode_into<B: BufMut>(p: &PathNlri, dst: &mut B) -> (r: u16)
    ensures (*final(dst)).bytes() == (*old(dst)).bytes() + nlri_wire(pn_nlri(*p)), r as int == nlri_wire(pn_nlri(*p)).len(),
{ p.nlri.encode(dst).unwrap() }
#[verifier::external_body]
pub fn vx_pathnlri_path_id(p: &PathNlri) -> (r: u32)
    ensures r == pn_path_id(*p),
{ p.path_id }

pub uninterp spec fn nh_octets(n: Nexthop) -> Seq<u8>;
pub assume_specification[ Nexthop::to_bytes ](n: &Nexthop) -> (r: Vec<u8>)
    ensures r@ == nh_octets(*n), r@.len() == 4 || r@.len() == 16 || r@.len() == 32,
;
pub uninterp spec fn fam_afi(f: Family) -> u16;
pub uninterp spec fn fam_safi(f: Family) -> u8;
pub assume_specification[ Family::afi ](f: &Family) -> (r: u16)
    ensures r == fam_afi(*f),
;
pub assume_specification[ Family::safi ](f: &Family) -> (r: u8)
    ensures r == fam_safi(*f),
;


// ---- types and callees seen by do_encode ---------------------------------------------------------------------------
#[verifier::external_type_specification]
#[verifier::external_body]
pub struct ExErrorEnc(crate::error::Error);
#[verifier::external_type_specification]
pub struct ExIpAddrEnc(std::net::IpAddr);
#[verifier::external_type_specification]
#[verifier::external_body]
pub struct ExIpv4AddrEnc(std::net::Ipv4Addr);
#[verifier::external_type_specification]
#[verifier::external_body]
pub struct ExIpv6AddrEnc(std::net::Ipv6Addr);

pub uninterp spec fn holdtime_secs(h: HoldTime) -> u16;
pub assume_specification[ HoldTime::seconds ](h: HoldTime) -> (r: u16)
    ensures r == holdtime_secs(h),
;
pub uninterp spec fn nh_addr(n: Nexthop) -> std::net::IpAddr;
pub assume_specification[ Nexthop::addr ](n: &Nexthop) -> (r: std::net::IpAddr)
    ensures r == nh_addr(*n),
;
pub uninterp spec fn ip4_octets(a: std::net::Ipv4Addr) -> Seq<u8>;
pub assume_specification[ std::net::Ipv4Addr::octets ](a: &std::net::Ipv4Addr) -> (r: [u8; 4])
    ensures r@ == ip4_octets(*a), r@.len() == 4,
;
pub assume_specification<T: Clone>[ <[T]>::to_vec ](s: &[T]) -> (r: Vec<T>)
    ensures r@.len() == s@.len(),
;
/// `attr.as_ref()` on an Arc<Vec<Attribute>>
#[verifier::external_body]
pub fn vx_arc_vec_ref(a: &Arc<Vec<Attribute>>) -> (r: &Vec<Attribute>)
    ensures r@ == a@,
{ a.as_ref() }
pub uninterp spec fn notif_code(n: Notification) -> u8;
pub uninterp spec fn notif_subcode(n: Notification) -> u8;
pub uninterp spec fn notif_data(n: Notification) -> Seq<u8>;
pub assume_specification[ Notification::notification_code ](n: &Notification) -> (r: u8)
    ensures r == notif_code(*n),
;
pub assume_specification[ Notification::notification_subcode ](n: &Notification) -> (r: u8)
    ensures r == notif_subcode(*n),
;
pub assume_specification[ Notification::notification_data ](n: &Notification) -> (r: &[u8])
    ensures r@ == notif_data(*n),
;
/// the raw (afi << 16 | safi) value of a family (tuple-struct field read)
pub uninterp spec fn fam_raw(f: Family) -> u32;
/// `&entries[start..]` (panics when start > len: obligation)
#[verifier::external_body]
pub fn vx_entries_from(e: &Vec<PathNlri>, start: usize) -> (r: &[PathNlri])
    requires start <= e@.len(),
    ensures r@ == e@.subrange(start as int, e@.len() as int),
{ &e[start..] }

/// wire forms of capabilities and attributes (their encoders are not under contract here)
pub uninterp spec fn cap_wire(c: Capability) -> Seq<u8>;
pub uninterp spec fn attr_wire(a: Attribute) -> Seq<u8>;
pub uninterp spec fn sp_new_with_bin(code: u8, b: Seq<u8>) -> Option<Attribute>;
pub assume_specification[ Attribute::new_with_bin ](code: u8, b: Vec<u8>) -> (r: Option<Attribute>)
    ensures r == sp_new_with_bin(code, b@), (code == 2 || code == 3 || code == 7 || code == 17 || code == 18) ==> r is Some,
;
pub uninterp spec fn attr_binary(a: Attribute) -> Option<Seq<u8>>;
pub assume_specification[ Attribute::binary ](a: &Attribute) -> (r: Option<&Vec<u8>>)
    ensures
        r is None <==> attr_binary(*a) is None,
        r is Some ==> attr_binary(*a) == Some(r->Some_0@),
;
pub assume_specification[ Attribute::as_path_strip_confed ](a: &Attribute) -> (r: Attribute)
    requires attr_code(*a) == 2, attr_binary(*a) is Some,
    ensures attr_binary(r) is Some,
;


/// the NEXT_HOP attribute built from 4 octets is flags, code, length, 4 octets on the wire (assumed: encode_wire of a
/// short attribute is a 3-byte header + value)
pub broadcast axiom fn axiom_nexthop_attr_wire(b: Seq<u8>)
    requires b.len() == 4, sp_new_with_bin(3, b) is Some,
    ensures #[trigger] attr_wire(sp_new_with_bin(3, b)->Some_0).len() == 7,
;

} // verus!
