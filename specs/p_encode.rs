// Prelude fragment for unit packet_encode: a generic `B: BufMut + AsMut<[u8]>` destination as an append-only byte
// sequence (p_bytes.rs) whose length can be read, the per-NLRI encoder as an uninterpreted byte string.
use vstd::prelude::*;
use bytes::BufMut;
use crate::bgp::*;
use super::*;
verus! {

/// `dst.as_mut().len()`: the number of bytes written so far (a slice length: at most isize::MAX)
#[verifier::external_body]
pub fn vx_buf_len<B: BufMut + AsMut<[u8]>>(dst: &mut B) -> (r: usize)
    ensures r == (*old(dst)).bytes().len(), r <= isize::MAX as usize, (*final(dst)).bytes() == (*old(dst)).bytes(),
{ dst.as_mut().len() }
/// `(&mut dst.as_mut()[pos..]).write_u16::<NetworkEndian>(v).unwrap()` on the generic destination
#[verifier::external_body]
pub fn vx_buf_patch_u16<B: BufMut + AsMut<[u8]>>(dst: &mut B, pos: usize, v: u16)
    requires pos + 2 <= (*old(dst)).bytes().len(),
    ensures
        (*final(dst)).bytes().len() == (*old(dst)).bytes().len(),
        (*final(dst)).bytes() == (*old(dst)).bytes().subrange(0, pos as int) + be16(v) + (*old(dst)).bytes().subrange(pos + 2, (*old(dst)).bytes().len() as int),
{
    use byteorder::{NetworkEndian, WriteBytesExt};
    (&mut dst.as_mut()[pos..]).write_u16::<NetworkEndian>(v).unwrap();
}
/// `dst.put_bytes(0, n)`: n zero bytes
#[verifier::external_body]
pub fn vx_put_zeros<B: BufMut>(dst: &mut B, n: usize)
    ensures (*final(dst)).bytes() == (*old(dst)).bytes() + Seq::new(n as nat, |i: int| 0u8),
{ dst.put_bytes(0, n); }

/// Vec<u8>'s BufMut implementation appends to the vector (assumed: bytes crate)
impl BufMutSpecImpl for Vec<u8> {
    open spec fn bytes(&self) -> Seq<u8> { self@ }
}

#[verifier::external_type_specification]
#[verifier::external_body]
pub struct ExNlriEnc(Nlri);
/// the wire form of one NLRI (Nlri::encode and the per-family encoders below it: not under contract); never empty, shorter than a BGP message (assumed)
pub uninterp spec fn nlri_wire(n: Nlri) -> Seq<u8>;
pub broadcast axiom fn axiom_nlri_wire_nonempty(n: Nlri)
    ensures 1 <= #[trigger] nlri_wire(n).len() <= 65535,
;
pub uninterp spec fn pn_nlri(p: PathNlri) -> Nlri;
pub uninterp spec fn pn_path_id(p: PathNlri) -> u32;
/// `item.nlri.encode(dst).unwrap()` for a PathNlri
#[verifier::external_body]
pub fn vx_pathnlri_encode_into<B: BufMut>(p: &PathNlri, dst: &mut B)
    ensures (*final(dst)).bytes() == (*old(dst)).bytes() + nlri_wire(pn_nlri(*p)),
{ p.nlri.encode(dst).unwrap(); }
#[verifier::external_body]
pub fn vx_pathnlri_path_id(p: &PathNlri) -> (r: u32)
    ensures r == pn_path_id(*p),
{ p.path_id }

pub uninterp spec fn nh_octets(n: Nexthop) -> Seq<u8>;
pub assume_specification[ Nexthop::to_bytes ](n: &Nexthop) -> (r: Vec<u8>)
    ensures r@ == nh_octets(*n), r@.len() == 4 || r@.len() == 16 || r@.len() == 32,
;
pub uninterp spec fn fam_afi(f: Family) -> u16;
pub uninterp spec fn fam_safi(f: Family) -> u8;
pub assume_specification[ Family::afi ](f: &Family) -> (r: u16)
    ensures r == fam_afi(*f),
;
pub assume_specification[ Family::safi ](f: &Family) -> (r: u8)
    ensures r == fam_safi(*f),
;

} // verus!
