// Prelude fragment for unit daemon_export: table / packet types seen from daemon/src/event/export.rs.
use vstd::prelude::*;
use rustybgp_packet::{self as packet, Family, bgp};
use rustybgp_table as table;
use table::PeerRole;
use std::net::{IpAddr, Ipv4Addr, Ipv6Addr};
use super::*;
use super::p_iter::*;
verus! {

#[verifier::external_type_specification]
#[verifier::external_body]
pub struct ExUpdateOpaque(rustybgp_packet::bgp::Update);


#[verifier::external_type_specification]
pub struct ExPeerRole(PeerRole);

#[verifier::external_type_specification]
pub struct ExNexthopE(bgp::Nexthop);

#[verifier::external_type_specification]
#[verifier::external_body]
pub struct ExSourceE(table::Source);

#[verifier::external_type_specification]
pub struct ExIpAddrE(IpAddr);
#[verifier::external_type_specification]
#[verifier::external_body]
pub struct ExIpv4AddrE(Ipv4Addr);
#[verifier::external_type_specification]
#[verifier::external_body]
pub struct ExIpv6AddrE(Ipv6Addr);

/// derive(PartialEq) on PeerRole is structural (assumed)
pub assume_specification[ <PeerRole as PartialEq>::eq ](a: &PeerRole, b: &PeerRole) -> (r: bool)
    ensures r == (*a == *b),
;

// ---- table::Source: fields read through accessor shims (R13), methods as assumed contracts ---------------------
pub uninterp spec fn src_remote_asn(s: table::Source) -> u32;
pub uninterp spec fn src_local_asn(s: table::Source) -> u32;
pub uninterp spec fn src_role(s: table::Source) -> PeerRole;
/// pointer identity with the canonical local source (Source::is_local), opaque
pub uninterp spec fn src_is_local(s: table::Source) -> bool;
#[verifier::external_body]
pub fn vx_source_remote_asn(s: &table::Source) -> (r: u32) ensures r == src_remote_asn(*s), { s.remote_asn }
#[verifier::external_body]
pub fn vx_source_local_asn(s: &table::Source) -> (r: u32) ensures r == src_local_asn(*s), { s.local_asn }
pub assume_specification[ table::Source::is_local ](s: &table::Source) -> (r: bool)
    ensures r == src_is_local(*s),
;
pub assume_specification[ table::Source::is_rr_client ](s: &table::Source) -> (r: bool)
    ensures r == (src_role(*s) is IbgpRrClient),
;
pub assume_specification[ table::Source::is_rs_client ](s: &table::Source) -> (r: bool)
    ensures r == (src_role(*s) is RsClient),
;

// ---- next hops ------------------------------------------------------------------------------------------------
pub uninterp spec fn ip_unspecified(a: IpAddr) -> bool;
pub assume_specification[ IpAddr::is_unspecified ](a: &IpAddr) -> (r: bool)
    ensures r == ip_unspecified(*a),
;
pub open spec fn nh_addr(n: bgp::Nexthop) -> IpAddr {
    match n {
        bgp::Nexthop::V4(a) => IpAddr::V4(a),
        bgp::Nexthop::V6(a) => IpAddr::V6(a),
        bgp::Nexthop::V6LinkLocal(a, l) => IpAddr::V6(a),
    }
}
pub assume_specification[ bgp::Nexthop::addr ](n: &bgp::Nexthop) -> (r: IpAddr)
    ensures r == nh_addr(*n),
;


// ---- packet::Attribute as an opaque value with uninterpreted observers (field reads of the packet crate) -------
#[verifier::external_type_specification]
#[verifier::external_body]
pub struct ExAttributeE(packet::Attribute);
#[verifier::external_type_specification]
#[verifier::external_body]
pub struct ExPacketErrorE(packet::Error);

pub uninterp spec fn attr_code(a: packet::Attribute) -> u8;
pub uninterp spec fn attr_value(a: packet::Attribute) -> Option<u32>;
pub uninterp spec fn attr_binary(a: packet::Attribute) -> Option<Seq<u8>>;
pub uninterp spec fn attr_opaque(a: packet::Attribute) -> bool;
pub uninterp spec fn attr_transitive(a: packet::Attribute) -> bool;
/// AS_PATH edits of packet/src/bgp.rs (not under contract in this unit: uninterpreted functions of their arguments)
pub uninterp spec fn sp_prepend(a: packet::Attribute, asn: u32) -> packet::Attribute;
pub uninterp spec fn sp_prepend_confed(a: packet::Attribute, asn: u32) -> packet::Attribute;
pub uninterp spec fn sp_strip_confed(a: packet::Attribute) -> packet::Attribute;
pub uninterp spec fn sp_empty_as_path() -> packet::Attribute;
pub uninterp spec fn sp_with_partial(a: packet::Attribute) -> packet::Attribute;
/// number of occurrences of `asn` in an AS_PATH attribute; None when the stored bytes are not a whole number of segments
pub uninterp spec fn sp_as_count(a: packet::Attribute, asn: u32) -> Option<usize>;
pub uninterp spec fn sp_new_with_value(code: u8, v: u32) -> Option<packet::Attribute>;
pub uninterp spec fn sp_new_with_bin(code: u8, b: Seq<u8>) -> Option<packet::Attribute>;

pub assume_specification[ <packet::Attribute as Clone>::clone ](a: &packet::Attribute) -> (r: packet::Attribute)
    ensures r == *a,
;
pub assume_specification[ packet::Attribute::code ](a: &packet::Attribute) -> (r: u8)
    ensures r == attr_code(*a),
;
pub assume_specification[ packet::Attribute::binary ](a: &packet::Attribute) -> (r: Option<&Vec<u8>>)
    ensures
        r is None <==> attr_binary(*a) is None,
        r is Some ==> attr_binary(*a) == Some(r->Some_0@),
;
pub assume_specification[ packet::Attribute::is_opaque ](a: &packet::Attribute) -> (r: bool)
    ensures r == attr_opaque(*a),
;
pub assume_specification[ packet::Attribute::is_transitive ](a: &packet::Attribute) -> (r: bool)
    ensures r == attr_transitive(*a),
;
pub assume_specification[ packet::Attribute::with_partial_bit ](a: &packet::Attribute) -> (r: packet::Attribute)
    ensures r == sp_with_partial(*a),
;
/// as_path_prepend / _confed / strip_confed assert the code and unwrap the byte string
pub open spec fn is_as_path_attr(a: packet::Attribute) -> bool { attr_code(a) == 2 && attr_binary(a) is Some }
pub assume_specification[ packet::Attribute::as_path_prepend ](a: &packet::Attribute, asn: u32) -> (r: packet::Attribute)
    requires is_as_path_attr(*a),
    ensures r == sp_prepend(*a, asn),
;
pub assume_specification[ packet::Attribute::as_path_prepend_confed ](a: &packet::Attribute, asn: u32) -> (r: packet::Attribute)
    requires is_as_path_attr(*a),
    ensures r == sp_prepend_confed(*a, asn),
;
pub assume_specification[ packet::Attribute::as_path_strip_confed ](a: &packet::Attribute) -> (r: packet::Attribute)
    requires is_as_path_attr(*a),
    ensures r == sp_strip_confed(*a),
;
pub assume_specification[ packet::Attribute::empty_as_path ]() -> (r: packet::Attribute)
    ensures r == sp_empty_as_path(),
;
pub assume_specification[ packet::Attribute::as_path_count ](a: &packet::Attribute, asn: u32) -> (r: Result<usize, packet::Error>)
    requires attr_binary(*a) is Some,
    ensures
        r is Ok <==> sp_as_count(*a, asn) is Some,
        r is Ok ==> r->Ok_0 == sp_as_count(*a, asn)->Some_0,
;
pub assume_specification[ packet::Attribute::new_with_value ](code: u8, v: u32) -> (r: Option<packet::Attribute>)
    ensures r == sp_new_with_value(code, v),
;
pub assume_specification[ packet::Attribute::new_with_bin ](code: u8, b: Vec<u8>) -> (r: Option<packet::Attribute>)
    ensures r == sp_new_with_bin(code, b@),
;
/// what the packet crate's constructors and AS_PATH edits obviously satisfy (struct literals with the fields given;
/// canonical_flags is Some for the codes listed — the table itself is proved by the Kani harness c05_canonical_flags_table)
pub broadcast axiom fn axiom_new_with_value(code: u8, v: u32)
    ensures
        (code == 5 || code == 9) ==> #[trigger] sp_new_with_value(code, v) is Some,
        sp_new_with_value(code, v) is Some ==> attr_code(sp_new_with_value(code, v)->Some_0) == code
            && attr_value(sp_new_with_value(code, v)->Some_0) == Some(v)
            && attr_binary(sp_new_with_value(code, v)->Some_0) is None
            && !attr_opaque(sp_new_with_value(code, v)->Some_0),
;
pub broadcast axiom fn axiom_new_with_bin(code: u8, b: Seq<u8>)
    ensures
        (code == 8 || code == 10) ==> #[trigger] sp_new_with_bin(code, b) is Some,
        sp_new_with_bin(code, b) is Some ==> attr_code(sp_new_with_bin(code, b)->Some_0) == code
            && attr_binary(sp_new_with_bin(code, b)->Some_0) == Some(b)
            && attr_value(sp_new_with_bin(code, b)->Some_0) is None
            && !attr_opaque(sp_new_with_bin(code, b)->Some_0),
;
pub broadcast axiom fn axiom_as_path_edits_keep_code(a: packet::Attribute, asn: u32)
    ensures
        attr_code(#[trigger] sp_prepend(a, asn)) == attr_code(a),
        attr_code(#[trigger] sp_prepend_confed(a, asn)) == attr_code(a),
;
pub broadcast axiom fn axiom_strip_keeps_code(a: packet::Attribute)
    ensures
        attr_code(#[trigger] sp_strip_confed(a)) == attr_code(a),
        attr_binary(sp_strip_confed(a)) is Some,
;
pub broadcast axiom fn axiom_empty_as_path()
    ensures attr_code(#[trigger] sp_empty_as_path()) == 2, attr_binary(sp_empty_as_path()) == Some(Seq::<u8>::empty()),
;
pub broadcast axiom fn axiom_with_partial(a: packet::Attribute)
    ensures
        attr_code(#[trigger] sp_with_partial(a)) == attr_code(a),
        attr_opaque(sp_with_partial(a)) == attr_opaque(a),
        attr_transitive(sp_with_partial(a)) == attr_transitive(a),
        attr_binary(sp_with_partial(a)) == attr_binary(a),
;

#[verifier::allow(undeclared_external_trait)]
pub assume_specification<T, E, F: FnOnce(T) -> bool + core::marker::Destruct>[ Result::<T, E>::is_ok_and ](o: Result<T, E>, f: F) -> (r: bool)
    requires o is Ok ==> call_requires(f, (o->Ok_0,)),
    ensures
        o is Err ==> !r,
        o is Ok ==> call_ensures(f, (o->Ok_0,), r),
;


// ---- helpers for constructs outside Verus's dialect (R11; assumed std semantics) --------------------------------
/// the octets of an address (network order)
pub uninterp spec fn ip4_octets(a: Ipv4Addr) -> Seq<u8>;
pub broadcast axiom fn axiom_ip4_octets_len(a: Ipv4Addr)
    ensures #[trigger] ip4_octets(a).len() == 4,
;
/// `u32::from(addr).to_be_bytes()`: the four octets of the address
#[verifier::external_body]
pub fn vx_ipv4_be_bytes(a: Ipv4Addr) -> (r: [u8; 4])
    ensures r@ == ip4_octets(a),
{ u32::from(a).to_be_bytes() }
/// `[u8]::to_vec`
#[verifier::external_body]
pub fn vx_bytes_to_vec(s: &[u8]) -> (r: Vec<u8>)
    ensures r@ == s@,
{ s.to_vec() }
/// some aligned 4-byte chunk of b equals pat
pub open spec fn has_chunk4(b: Seq<u8>, pat: Seq<u8>) -> bool {
    exists|k: int| #![trigger b.subrange(4 * k, 4 * k + 4)] 0 <= k && 4 * k + 4 <= b.len() && b.subrange(4 * k, 4 * k + 4) == pat
}
/// `b.chunks(4).any(|c| c == pat)` for a 4-byte pattern (a short last chunk never equals it)
#[verifier::external_body]
pub fn vx_chunks_4_any_eq(b: &Vec<u8>, pat: &[u8; 4]) -> (r: bool)
    ensures r == has_chunk4(b@, pat@),
{ b.chunks(4).any(|c| c == pat) }
/// `b.chunks_exact(4).any(|c| c == pat)`: the same aligned chunks without the short tail
#[verifier::external_body]
pub fn vx_chunks_exact_4_any_eq(b: &Vec<u8>, pat: &[u8; 4]) -> (r: bool)
    ensures r == has_chunk4(b@, pat@),
{ b.chunks_exact(4).any(|c| c == pat) }
/// some 4-byte window of b (at any offset) equals pat
pub open spec fn has_window4(b: Seq<u8>, pat: Seq<u8>) -> bool {
    exists|k: int| #![trigger b.subrange(k, k + 4)] 0 <= k && k + 4 <= b.len() && b.subrange(k, k + 4) == pat
}
/// `b.windows(4).any(|c| c == pat)`: every offset, not only the aligned ones
#[verifier::external_body]
pub fn vx_windows_4_any_eq(b: &Vec<u8>, pat: &[u8; 4]) -> (r: bool)
    ensures r == has_window4(b@, pat@),
{ b.windows(4).any(|c| c == pat) }
/// `Arc::make_mut(a).retain(p)`: keeps exactly the elements for which p holds, in order (copy-on-write is invisible)
#[verifier::external_body]
pub fn vx_arc_vec_retain<T: Clone, P: Fn(&T) -> bool>(a: &mut std::sync::Arc<Vec<T>>, p: P)
    requires forall|x: &T| call_requires(p, (x,)),
    ensures forall|ps: spec_fn(T) -> bool| vx_pred1_agrees(p, ps) ==> final(a)@ == #[trigger] old(a)@.filter(ps),
{ std::sync::Arc::make_mut(a).retain(|x| p(x)) }


// ---- types seen by process_nlri_change ----------------------------------------------------------------------------
#[verifier::external_type_specification]
#[verifier::external_body]
pub struct ExNlriE(packet::Nlri);
#[verifier::external_type_specification]
pub struct ExPathE(table::Path);
#[verifier::external_type_specification]
pub struct ExNlriChangeE(table::NlriChange);
#[verifier::external_type_specification]
#[verifier::external_body]
pub struct ExPolicyAssignmentE(table::PolicyAssignment);
#[verifier::external_type_specification]
#[verifier::external_body]
pub struct ExRpkiTableE(table::RpkiTable);
#[verifier::external_type_specification]
pub struct ExDispositionE(table::Disposition);
#[verifier::external_type_specification]
#[verifier::external_body]
pub struct ExRtcFilterE(crate::rtc::RtcFilter);

pub assume_specification[ <packet::Nlri as Clone>::clone ](n: &packet::Nlri) -> (r: packet::Nlri)
    ensures r == *n,
;
pub assume_specification[ <table::Disposition as PartialEq>::eq ](a: &table::Disposition, b: &table::Disposition) -> (r: bool)
    ensures r == (*a == *b),
;
pub assume_specification[ <IpAddr as PartialEq>::eq ](a: &IpAddr, b: &IpAddr) -> (r: bool)
    ensures r == (*a == *b),
;
pub assume_specification[ table::NlriChange::new_best ](c: &table::NlriChange) -> (r: Option<&table::Path>)
    ensures r == (if c.current_paths@.len() > 0 { Some(&c.current_paths@[0]) } else { None }),
;
pub uninterp spec fn src_remote_addr(s: table::Source) -> IpAddr;
pub uninterp spec fn src_router_id(s: table::Source) -> u32;
/// the LLGR-stale flag (an atomic read as a plain field: one serialised stream of changes per session, A-C01-1)
pub uninterp spec fn src_llgr_stale(s: table::Source) -> bool;
#[verifier::external_body]
pub fn vx_source_remote_addr(s: &table::Source) -> (r: IpAddr) ensures r == src_remote_addr(*s), { s.remote_addr }
#[verifier::external_body]
pub fn vx_source_router_id(s: &table::Source) -> (r: u32) ensures r == src_router_id(*s), { s.router_id }
pub assume_specification[ table::Source::is_llgr_stale ](s: &table::Source) -> (r: bool)
    ensures r == src_llgr_stale(*s),
;
/// the RTC filter's verdict: a function of the filter and the attribute list
pub uninterp spec fn rtc_allows(f: crate::rtc::RtcFilter, a: Seq<packet::Attribute>) -> bool;
pub assume_specification[ crate::rtc::RtcFilter::allows ](f: &crate::rtc::RtcFilter, a: &[packet::Attribute]) -> (r: bool)
    ensures r == rtc_allows(*f, a@),
;
/// export policy (table::apply_export -> PolicyAssignment::apply; C14 covers its evaluation skeleton): NOT under contract
/// here — it enters as an uninterpreted deterministic function of its arguments (assumed: no hidden state), which keeps
/// stored AS_PATH attributes well-formed (A-C09-2)
pub uninterp spec fn sp_apply_export(policy: table::PolicyAssignment, rpki: Option<&table::RpkiTable>, source: table::Source, net: packet::Nlri,
    attr: Seq<packet::Attribute>, nexthop: Option<bgp::Nexthop>, original_nexthop: Option<bgp::Nexthop>, is_confed: bool, local_addr: IpAddr, peer_addr: IpAddr)
    -> (table::Disposition, Seq<packet::Attribute>, Option<bgp::Nexthop>);
pub open spec fn as_paths_wf(s: Seq<packet::Attribute>) -> bool { forall|i: int| #![trigger s[i]] 0 <= i < s.len() && attr_code(s[i]) == 2 ==> attr_binary(s[i]) is Some }
pub assume_specification[ table::apply_export ](
    policy: &table::PolicyAssignment, rpki: Option<&table::RpkiTable>, source: &std::sync::Arc<table::Source>, net: &packet::Nlri,
    attr: &mut std::sync::Arc<Vec<packet::Attribute>>, nexthop: &mut Option<bgp::Nexthop>, original_nexthop: Option<bgp::Nexthop>,
    is_confed: bool, local_addr: IpAddr, peer_addr: IpAddr) -> (r: table::Disposition)
    ensures
        (r, final(attr)@, *final(nexthop)) == sp_apply_export(*policy, rpki, **source, *net, old(attr)@, *old(nexthop), original_nexthop, is_confed, local_addr, peer_addr),
        as_paths_wf(old(attr)@) ==> as_paths_wf(final(attr)@),
;
/// R11 helper: `a.difference(&b)` as a vector (iteration order of a hash set: unspecified), without duplicates
#[verifier::external_body]
pub fn vx_set_difference_vec(a: &fnv::FnvHashSet<u32>, b: &fnv::FnvHashSet<u32>) -> (r: Vec<u32>)
    ensures
        r@.no_duplicates(),
        forall|x: u32| #![trigger r@.contains(x)] r@.contains(x) <==> (a@.contains(x) && !b@.contains(x)),
{ a.difference(b).copied().collect() }
/// R11 helper: the path ids of the current top-N as a hash set
#[verifier::external_body]
pub fn vx_collect_pids(v: &Vec<(u32, std::sync::Arc<Vec<packet::Attribute>>, Option<bgp::Nexthop>, std::sync::Arc<table::Source>)>) -> (r: fnv::FnvHashSet<u32>)
    ensures forall|x: u32| #![trigger r@.contains(x)] r@.contains(x) <==> (exists|i: int| #![trigger v@[i]] 0 <= i < v@.len() && v@[i].0 == x),
{ v.iter().map(|t| t.0).collect() }

} // verus!
