// Prelude fragment: ip_network_table_deps_treebitmap::IpLookupTable as a finite map from (network address, prefix
// length) to values — ASSUMED model of the external crate (its documented behaviour: `matches(ip)` yields every stored
// prefix containing `ip`, `longest_match(ip)` the longest of them).
use vstd::prelude::*;
use ip_network_table_deps_treebitmap::IpLookupTable;
use std::net::{Ipv4Addr, Ipv6Addr};
use super::*;
verus! {

#[verifier::external_type_specification]
#[verifier::external_body]
#[verifier::reject_recursive_types(A)]
#[verifier::reject_recursive_types(T)]
pub struct ExIpLookupTable<A, T>(IpLookupTable<A, T>);

pub uninterp spec fn lt4_view<T>(t: IpLookupTable<Ipv4Addr, T>) -> Map<(Ipv4Addr, u32), T>;
pub uninterp spec fn lt6_view<T>(t: IpLookupTable<Ipv6Addr, T>) -> Map<(Ipv6Addr, u32), T>;

/// octet i of an address with the host bits of a /len prefix cleared
pub open spec fn lt_masked_octet(addr: Seq<u8>, len: u32, i: int) -> u8 {
    if i < (len / 8) as int { addr[i] }
    else if i == (len / 8) as int { addr[i] & !(0xffu8 >> ((len % 8) as u8)) }
    else { 0u8 }
}
/// `net`/`len` is the /len network that the address `ip` lies in
pub open spec fn net4_contains(net: Ipv4Addr, len: u32, ip: Ipv4Addr) -> bool {
    len <= 32 && ip4_octets(net) =~= Seq::new(4, |i: int| lt_masked_octet(ip4_octets(ip), len, i))
}
pub open spec fn net6_contains(net: Ipv6Addr, len: u32, ip: Ipv6Addr) -> bool {
    len <= 128 && ip6_octets(net) =~= Seq::new(16, |i: int| lt_masked_octet(ip6_octets(ip), len, i))
}
/// (net, len, value) is a stored entry whose network contains `ip`
pub open spec fn lt4_yields<T>(t: IpLookupTable<Ipv4Addr, T>, ip: Ipv4Addr, e: (Ipv4Addr, u32, &T)) -> bool {
    lt4_view(t).contains_key((e.0, e.1)) && lt4_view(t)[(e.0, e.1)] == *e.2 && net4_contains(e.0, e.1, ip)
}
pub open spec fn lt6_yields<T>(t: IpLookupTable<Ipv6Addr, T>, ip: Ipv6Addr, e: (Ipv6Addr, u32, &T)) -> bool {
    lt6_view(t).contains_key((e.0, e.1)) && lt6_view(t)[(e.0, e.1)] == *e.2 && net6_contains(e.0, e.1, ip)
}

/// R11: `t.matches(ip).any(f)` — f holds for some stored prefix containing ip (assumed: `matches` yields exactly those)
#[verifier::external_body]
pub fn vx_lt4_matches_any<T, F: for<'a> Fn((Ipv4Addr, u32, &'a T)) -> bool>(t: &IpLookupTable<Ipv4Addr, T>, ip: Ipv4Addr, f: F) -> (r: bool)
    requires forall|e: (Ipv4Addr, u32, &T)| lt4_yields(*t, ip, e) ==> call_requires(f, (e,)),
    ensures
        r ==> exists|e: (Ipv4Addr, u32, &T)| #[trigger] lt4_yields(*t, ip, e) && call_ensures(f, (e,), true),
        !r ==> forall|e: (Ipv4Addr, u32, &T)| #[trigger] lt4_yields(*t, ip, e) ==> call_ensures(f, (e,), false),
{ t.matches(ip).any(f) }

#[verifier::external_body]
pub fn vx_lt6_matches_any<T, F: for<'a> Fn((Ipv6Addr, u32, &'a T)) -> bool>(t: &IpLookupTable<Ipv6Addr, T>, ip: Ipv6Addr, f: F) -> (r: bool)
    requires forall|e: (Ipv6Addr, u32, &T)| lt6_yields(*t, ip, e) ==> call_requires(f, (e,)),
    ensures
        r ==> exists|e: (Ipv6Addr, u32, &T)| #[trigger] lt6_yields(*t, ip, e) && call_ensures(f, (e,), true),
        !r ==> forall|e: (Ipv6Addr, u32, &T)| #[trigger] lt6_yields(*t, ip, e) ==> call_ensures(f, (e,), false),
{ t.matches(ip).any(f) }

/// R11: `t.longest_match(ip)` — the stored prefix containing ip with the greatest length (assumed)
#[verifier::external_body]
pub fn vx_lt4_longest_match<'a, T>(t: &'a IpLookupTable<Ipv4Addr, T>, ip: Ipv4Addr) -> (r: Option<(Ipv4Addr, u32, &'a T)>)
    ensures
        r is None ==> forall|e: (Ipv4Addr, u32, &T)| !#[trigger] lt4_yields(*t, ip, e),
        r is Some ==> lt4_yields(*t, ip, r->Some_0)
            && forall|e: (Ipv4Addr, u32, &T)| #[trigger] lt4_yields(*t, ip, e) ==> e.1 <= r->Some_0.1,
{ t.longest_match(ip) }

#[verifier::external_body]
pub fn vx_lt6_longest_match<'a, T>(t: &'a IpLookupTable<Ipv6Addr, T>, ip: Ipv6Addr) -> (r: Option<(Ipv6Addr, u32, &'a T)>)
    ensures
        r is None ==> forall|e: (Ipv6Addr, u32, &T)| !#[trigger] lt6_yields(*t, ip, e),
        r is Some ==> lt6_yields(*t, ip, r->Some_0)
            && forall|e: (Ipv6Addr, u32, &T)| #[trigger] lt6_yields(*t, ip, e) ==> e.1 <= r->Some_0.1,
{ t.longest_match(ip) }

} // verus!
