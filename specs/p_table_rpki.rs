// Prelude fragment for unit table_rpki: patricia_tree / packet types as opaque values.
use vstd::prelude::*;
use rustybgp_packet::{self as packet, Attribute, Family};
use patricia_tree::GenericPatriciaMap;
use super::*;
verus! {

#[verifier::external_type_specification]
#[verifier::external_body]
#[verifier::reject_recursive_types(K)]
#[verifier::reject_recursive_types(V)]
pub struct ExGenericPatriciaMap<K, V>(GenericPatriciaMap<K, V>);

#[verifier::external_type_specification]
pub struct ExIpNet(packet::IpNet);

#[verifier::external_type_specification]
#[verifier::external_body]
pub struct ExFnvHasherT(fnv::FnvHasher);

#[verifier::external_type_specification]
#[verifier::external_body]
#[verifier::reject_recursive_types_in_ground_variants(H)]
pub struct ExBuildHasherDefaultT<H>(core::hash::BuildHasherDefault<H>);

pub broadcast axiom fn axiom_family_obeys_key_model_t()
    ensures #[trigger] vstd::std_specs::hash::obeys_key_model::<Family>(),
;
pub broadcast axiom fn axiom_fnv_builds_valid_hashers_t()
    ensures #[trigger] vstd::std_specs::hash::builds_valid_hashers::<core::hash::BuildHasherDefault<fnv::FnvHasher>>(),
;

/// origin AS of an AS_PATH attribute (packet::Attribute::as_path_origin), opaque here
pub uninterp spec fn attr_origin_as(a: Attribute) -> Option<u32>;
pub assume_specification[ Attribute::as_path_origin ](a: &Attribute) -> (r: Option<u32>)
    ensures r == attr_origin_as(*a),
;

pub assume_specification[ <packet::IpNet as Clone>::clone ](a: &packet::IpNet) -> (r: packet::IpNet)
    ensures r == *a,
;

} // verus!
