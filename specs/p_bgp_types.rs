// Prelude fragment: packet-crate types seen by daemon units (assumed: transparent mirrors of the real definitions;
// Verus checks the mirror against the real type) and accessors for foreign enums.
use vstd::prelude::*;
use vstd::std_specs::cmp::OrdSpec;
use rustybgp_packet::bgp::{self, Capability, Family, HoldTime, PeerCodec};
use rustybgp_packet::Notification;
use fnv::FnvHashMap;
verus! {
// ---- foreign types ----------------------------------------------------------------------------

#[verifier::external_type_specification]
pub struct ExMessage(bgp::Message);

#[verifier::external_type_specification]
pub struct ExOpen(bgp::Open);


#[verifier::external_type_specification]
pub struct ExNotification(Notification);

#[verifier::external_type_specification]
pub struct ExCapability(Capability);

#[verifier::external_type_specification]
#[verifier::external_body]
pub struct ExFamily(Family);

#[verifier::external_type_specification]
#[verifier::external_body]
pub struct ExHoldTime(HoldTime);

#[verifier::external_type_specification]
#[verifier::external_body]
pub struct ExPeerCodec(PeerCodec);

#[verifier::external_type_specification]
#[verifier::external_body]
pub struct ExFnvHasher(fnv::FnvHasher);

#[verifier::external_type_specification]
#[verifier::external_body]
#[verifier::reject_recursive_types_in_ground_variants(H)]
pub struct ExBuildHasherDefault<H>(core::hash::BuildHasherDefault<H>);

// ---- derived / trivial trait impls of packet types (assumed: return an equal value / structural equality)
pub assume_specification[ <Capability as Clone>::clone ](c: &Capability) -> (r: Capability)
    ensures r == *c,
;

pub assume_specification[ <bgp::Message as Clone>::clone ](m: &bgp::Message) -> (r: bgp::Message)
    ensures r == *m,
;

pub assume_specification[ <Family as PartialEq>::eq ](a: &Family, b: &Family) -> (r: bool)
    ensures r == (*a == *b),
;

pub assume_specification[ <Family as Clone>::clone ](a: &Family) -> (r: Family)
    ensures r == *a,
;


// ---- field accessors for foreign enums (the `->` syntax needs the defining crate) ---------------
pub open spec fn msg_open(m: bgp::Message) -> bgp::Open {
    match m { bgp::Message::Open(o) => o, _ => arbitrary() }
}
pub open spec fn msg_notif(m: bgp::Message) -> Notification {
    match m { bgp::Message::Notification(n) => n, _ => arbitrary() }
}
pub open spec fn msg_rr_family(m: bgp::Message) -> Family {
    match m { bgp::Message::RouteRefresh { family } => family, _ => arbitrary() }
}

// ---- hashing: fnv + derived Hash/Eq of Family behave like a proper key (assumed) -----------------
pub broadcast axiom fn axiom_family_obeys_key_model()
    ensures #[trigger] vstd::std_specs::hash::obeys_key_model::<Family>(),
;
pub broadcast axiom fn axiom_fnv_builds_valid_hashers()
    ensures #[trigger] vstd::std_specs::hash::builds_valid_hashers::<core::hash::BuildHasherDefault<fnv::FnvHasher>>(),
;

} // verus!
