// Prelude fragment for unit table_policy: packet::bgp::AsPathIter as the sequence of segments it yields.
use vstd::prelude::*;
use rustybgp_packet::{self as packet, Attribute, Family, bgp};
use super::*;
use regex::Regex;
verus! {

#[verifier::external_type_specification]
#[verifier::external_body]
pub struct ExAsPathIter<'a>(bgp::AsPathIter<'a>);

/// the AS numbers of each segment of an AS_PATH attribute, in wire order; a segment may be EMPTY (Attribute::decode
/// accepts a segment count of 0) — assumed model of packet::bgp::AsPathIter
pub uninterp spec fn aspath_segments(a: Attribute) -> Seq<Seq<u32>>;
pub uninterp spec fn asp_rest(i: bgp::AsPathIter) -> Seq<Seq<u32>>;

pub assume_specification<'a>[ bgp::AsPathIter::<'a>::new ](attr: &'a Attribute) -> (r: bgp::AsPathIter<'a>)
    requires attr_binary(*attr) is Some,
    ensures asp_rest(r) == aspath_segments(*attr),
;

pub open spec fn vv_view(v: Seq<Vec<u32>>) -> Seq<Seq<u32>> { v.map_values(|x: Vec<u32>| x@) }

/// R11: `i.collect::<Vec<Vec<u32>>>()` / `for v in i`
#[verifier::external_body]
pub fn vx_aspath_segments(i: bgp::AsPathIter) -> (r: Vec<Vec<u32>>)
    ensures vv_view(r@) == asp_rest(i),
{ i.collect() }

/// R11: `i.next()`
#[verifier::external_body]
pub fn vx_aspath_next(i: &mut bgp::AsPathIter) -> (r: Option<Vec<u32>>)
    ensures
        asp_rest(*old(i)).len() == 0 ==> r is None,
        asp_rest(*old(i)).len() > 0 ==> r is Some && r->Some_0@ == asp_rest(*old(i))[0] && asp_rest(*final(i)) == asp_rest(*old(i)).skip(1),
{ i.next() }

#[verifier::external_type_specification]
#[verifier::external_body]
pub struct ExRegex(regex::Regex);

/// regular-expression matching is an (uninterpreted) function of pattern and text
pub uninterp spec fn re_match(r: regex::Regex, s: Seq<char>) -> bool;
pub assume_specification[ regex::Regex::is_match ](r: &regex::Regex, haystack: &str) -> (b: bool)
    ensures b == re_match(*r, haystack@),
;

} // verus!
