// Prelude fragment for unit table_policy: packet::bgp::AsPathIter as the sequence of segments it yields.
use vstd::prelude::*;
use rustybgp_packet::{self as packet, Attribute, Family, bgp};
use super::*;
use regex::Regex;
verus! {

#[verifier::external_type_specification]
#[verifier::external_body]
pub struct ExAsPathIter<'a>(bgp::AsPathIter<'a>);

/// the AS numbers of each segment of an AS_PATH attribute, in wire order; a segment may be EMPTY (Attribute::decode
/// accepts a segment count of 0) — assumed model of packet::bgp::AsPathIter
pub uninterp spec fn aspath_segments(a: Attribute) -> Seq<Seq<u32>>;
pub uninterp spec fn asp_rest(i: bgp::AsPathIter) -> Seq<Seq<u32>>;

pub assume_specification<'a>[ bgp::AsPathIter::<'a>::new ](attr: &'a Attribute) -> (r: bgp::AsPathIter<'a>)
    requires attr_binary(*attr) is Some,
    ensures asp_rest(r) == aspath_segments(*attr),
;

pub open spec fn vv_view(v: Seq<Vec<u32>>) -> Seq<Seq<u32>> { v.map_values(|x: Vec<u32>| x@) }

/// R11: `i.collect::<Vec<Vec<u32>>>()` / `for v in i`
#[verifier::external_body]
pub fn vx_aspath_segments(i: bgp::AsPathIter) -> (r: Vec<Vec<u32>>)
    ensures vv_view(r@) == asp_rest(i),
{ i.collect() }

/// R11: `i.next()`
#[verifier::external_body]
pub fn vx_aspath_next(i: &mut bgp::AsPathIter) -> (r: Option<Vec<u32>>)
    ensures
        asp_rest(*old(i)).len() == 0 ==> r is None,
        asp_rest(*old(i)).len() > 0 ==> r is Some && r->Some_0@ == asp_rest(*old(i))[0] && asp_rest(*final(i)) == asp_rest(*old(i)).skip(1),
{ i.next() }

#[verifier::external_type_specification]
#[verifier::external_body]
pub struct ExFnvHasherP(fnv::FnvHasher);
#[verifier::external_type_specification]
#[verifier::external_body]
#[verifier::reject_recursive_types_in_ground_variants(H)]
pub struct ExBuildHasherDefaultP<H>(core::hash::BuildHasherDefault<H>);

#[verifier::external_type_specification]
#[verifier::external_body]
pub struct ExRegex(regex::Regex);

/// regular-expression matching is an (uninterpreted) function of pattern and text
pub uninterp spec fn re_match(r: regex::Regex, s: Seq<char>) -> bool;
pub assume_specification[ regex::Regex::is_match ](r: &regex::Regex, haystack: &str) -> (b: bool)
    ensures b == re_match(*r, haystack@),
;

// ---- Statement::apply: attribute constructors as uninterpreted values with their type codes (assumed) -------------
pub broadcast axiom fn axiom_comm_attr_code(a: Seq<u32>)
    ensures (#[trigger] sp_comm_attr(a)) is Some ==> attr_code(sp_comm_attr(a)->Some_0) == 8,
;
pub broadcast axiom fn axiom_ecomm_attr_code(b: Seq<[u8; 8]>)
    ensures (#[trigger] sp_ecomm_attr(b)) is Some ==> attr_code(sp_ecomm_attr(b)->Some_0) == 16,
;
pub broadcast axiom fn axiom_lcomm_attr_code(c: Seq<(u32, u32, u32)>)
    ensures (#[trigger] sp_lcomm_attr(c)) is Some ==> attr_code(sp_lcomm_attr(c)->Some_0) == 32,
;
pub uninterp spec fn sp_empty_as_path() -> packet::Attribute;
pub broadcast axiom fn axiom_empty_as_path()
    ensures attr_code(#[trigger] sp_empty_as_path()) == 2, attr_binary(sp_empty_as_path()) is Some, aspath_segments(sp_empty_as_path()).len() == 0,
;
/// Attribute::new_with_value: Some for the codes with canonical flags (Kani harness c05_canonical_flags_table), a value attribute
pub uninterp spec fn sp_value_attr(code: u8, v: u32) -> packet::Attribute;
pub broadcast axiom fn axiom_value_attr(code: u8, v: u32)
    ensures attr_code(#[trigger] sp_value_attr(code, v)) == code, attr_value(sp_value_attr(code, v)) == Some(v),
;
pub uninterp spec fn sp_comm_attr(c: Seq<u32>) -> Option<packet::Attribute>;
pub uninterp spec fn sp_ecomm_attr(c: Seq<[u8; 8]>) -> Option<packet::Attribute>;
pub uninterp spec fn sp_lcomm_attr(c: Seq<(u32, u32, u32)>) -> Option<packet::Attribute>;

} // verus!
