// Prelude fragment: foreign types used by daemon/src/peer_tx.rs (opaque mirrors; assumed contracts).
use vstd::prelude::*;
use rustybgp_packet::bgp::{self, Family, Nexthop};
use rustybgp_packet::{self as packet};
use std::sync::Arc;
use super::*;
verus! {

#[verifier::external_type_specification]
#[verifier::external_body]
pub struct ExNlri(packet::Nlri);

#[verifier::external_type_specification]
#[verifier::external_body]
pub struct ExAttribute(packet::Attribute);

#[verifier::external_type_specification]
#[verifier::external_body]
pub struct ExNexthop(Nexthop);

#[verifier::external_type_specification]
pub struct ExPathNlri(packet::PathNlri);

/// #[derive(PartialEq)] on Nlri is structural equality (assumed)
pub assume_specification[ <packet::Nlri as PartialEq>::eq ](a: &packet::Nlri, b: &packet::Nlri) -> (r: bool)
    ensures r == (*a == *b),
;

pub broadcast axiom fn axiom_u32_pair_obeys_key_model()
    ensures #[trigger] vstd::std_specs::hash::obeys_key_model::<(u32, u32)>(),
;

} // verus!
