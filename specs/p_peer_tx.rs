// Prelude fragment: foreign types used by daemon/src/peer_tx.rs (opaque mirrors; assumed contracts).
use vstd::prelude::*;
use rustybgp_packet::bgp::{self, Family, Nexthop};
use rustybgp_packet::{self as packet};
use std::sync::Arc;
use super::*;
verus! {

#[verifier::external_type_specification]
pub struct ExUpdateT(bgp::Update);


#[verifier::external_type_specification]
#[verifier::external_body]
pub struct ExNlri(packet::Nlri);

#[verifier::external_type_specification]
#[verifier::external_body]
pub struct ExAttribute(packet::Attribute);

#[verifier::external_type_specification]
#[verifier::external_body]
pub struct ExNexthop(Nexthop);

#[verifier::external_type_specification]
pub struct ExPathNlri(packet::PathNlri);

/// #[derive(PartialEq)] on Nlri is structural equality (assumed)
pub assume_specification[ <packet::Nlri as PartialEq>::eq ](a: &packet::Nlri, b: &packet::Nlri) -> (r: bool)
    ensures r == (*a == *b),
;

pub broadcast axiom fn axiom_u32_pair_obeys_key_model()
    ensures #[trigger] vstd::std_specs::hash::obeys_key_model::<(u32, u32)>(),
;


// ---- R11 helpers for drain_messages: hash-map drains (std collection algebra; contracts assumed) -------------------
/// `entries.extend(unreach.drain().map(|((_, path_id), nlri)| PathNlri { path_id, nlri }))`: empties the map and
/// appends one PathNlri per entry (iteration order of a hash map: unspecified)
#[verifier::external_body]
pub fn vx_drain_unreach_into(m: &mut fnv::FnvHashMap<(u32, u32), packet::Nlri>, out: &mut Vec<packet::PathNlri>)
    ensures
        final(m)@ == Map::<(u32, u32), packet::Nlri>::empty(),
        final(out)@.len() >= old(out)@.len(),
        final(out)@.subrange(0, old(out)@.len() as int) == old(out)@,
        forall|k: (u32, u32)| #![trigger old(m)@.contains_key(k)] old(m)@.contains_key(k) ==>
            exists|i: int| #![trigger final(out)@[i]] old(out)@.len() <= i < final(out)@.len() && final(out)@[i].path_id == k.1 && final(out)@[i].nlri == old(m)@[k],
        forall|i: int| #![trigger final(out)@[i]] old(out)@.len() <= i < final(out)@.len() ==>
            exists|k: (u32, u32)| #![trigger old(m)@.contains_key(k)] old(m)@.contains_key(k) && final(out)@[i].path_id == k.1 && final(out)@[i].nlri == old(m)@[k],
{ out.extend(m.drain().map(|((_, path_id), nlri)| packet::PathNlri { path_id, nlri })); }

/// the drain-and-group loop of drain_messages: empties the map and returns its entries grouped by (attributes, next hop);
/// every queued announcement is in exactly the group of its attributes / next hop, every group element is one
pub type VxGroup = ((Arc<Vec<packet::Attribute>>, Option<Nexthop>), Vec<packet::PathNlri>);
#[verifier::external_body]
pub fn vx_group_reach(m: &mut fnv::FnvHashMap<(u32, u32), (packet::Nlri, Arc<Vec<packet::Attribute>>, Option<Nexthop>)>) -> (g: Vec<VxGroup>)
    ensures
        final(m)@ == Map::<(u32, u32), (packet::Nlri, Arc<Vec<packet::Attribute>>, Option<Nexthop>)>::empty(),
        forall|k: (u32, u32)| #![trigger old(m)@.contains_key(k)] old(m)@.contains_key(k) ==>
            exists|gi: int, ei: int| #![trigger g@[gi].1@[ei]] 0 <= gi < g@.len() && 0 <= ei < g@[gi].1@.len()
                && g@[gi].0.0 == old(m)@[k].1 && g@[gi].0.1 == old(m)@[k].2
                && g@[gi].1@[ei].path_id == k.1 && g@[gi].1@[ei].nlri == old(m)@[k].0,
        forall|gi: int, ei: int| #![trigger g@[gi].1@[ei]] 0 <= gi < g@.len() && 0 <= ei < g@[gi].1@.len() ==>
            exists|k: (u32, u32)| #![trigger old(m)@.contains_key(k)] old(m)@.contains_key(k)
                && g@[gi].0.0 == old(m)@[k].1 && g@[gi].0.1 == old(m)@[k].2
                && g@[gi].1@[ei].path_id == k.1 && g@[gi].1@[ei].nlri == old(m)@[k].0,
{
    let mut grouped: fnv::FnvHashMap<(Arc<Vec<packet::Attribute>>, Option<Nexthop>), Vec<packet::PathNlri>> = fnv::FnvHashMap::default();
    for ((_, path_id), (nlri, attr, nexthop)) in m.drain() {
        grouped.entry((attr, nexthop)).or_default().push(packet::PathNlri { path_id, nlri });
    }
    grouped.into_iter().collect()
}
/// `std::mem::take(&mut v)` on a vector: returns it and leaves an empty one
#[verifier::external_body]
pub fn vx_take_vec<T>(v: &mut Vec<T>) -> (r: Vec<T>)
    ensures r == *old(v), final(v)@.len() == 0,
{ std::mem::take(v) }
/// `self.buffered.extend(msgs)`
#[verifier::external_body]
pub fn vx_vec_append_msgs(v: &mut Vec<bgp::Message>, msgs: Vec<bgp::Message>)
    ensures final(v)@ == old(v)@ + msgs@,
{ v.extend(msgs); }
/// `Message::eor(family)`
pub assume_specification[ bgp::Message::eor ](family: Family) -> (r: bgp::Message)
    ensures r == bgp::Message::Update(bgp::Update::EndOfRib(family)),
;

} // verus!
