// Prelude fragment: std types / iterator algebra used by daemon/src/gr.rs (assumed contracts, R11 helpers).
use vstd::prelude::*;
use rustybgp_packet::bgp::Family;
use fnv::{FnvHashMap, FnvHashSet};
use std::time::Duration;
use super::*;
verus! {

#[verifier::external_type_specification]
#[verifier::external_body]
pub struct ExUpdateOpaque(rustybgp_packet::bgp::Update);


// (vstd already specifies core::time::Duration)

pub assume_specification<T>[ std::mem::replace ](dest: &mut T, src: T) -> (r: T)
    ensures r == *old(dest), *final(dest) == src,
;

pub assume_specification[ rustybgp_packet::Notification::is_hard_reset ](n: &rustybgp_packet::Notification) -> (r: bool)
    ensures r == (*n is CeaseHardReset),
;

/// NOTIFICATION error code / subcode of the packet crate's variants (opaque here)
pub uninterp spec fn notif_code(n: rustybgp_packet::Notification) -> u8;
pub uninterp spec fn notif_subcode(n: rustybgp_packet::Notification) -> u8;
pub assume_specification[ rustybgp_packet::Notification::notification_code ](n: &rustybgp_packet::Notification) -> (r: u8)
    ensures r == notif_code(*n),
;
pub assume_specification[ rustybgp_packet::Notification::notification_subcode ](n: &rustybgp_packet::Notification) -> (r: u8)
    ensures r == notif_subcode(*n),
;

/// some pair of the sequence has first component f
pub open spec fn pairs_has(v: Seq<(Family, Duration)>, f: Family) -> bool {
    exists|i: int| 0 <= i < v.len() && (#[trigger] v[i]).0 == f
}

/// R11 helper: `pairs.iter().map(|(f, _)| *f).collect()` into a hash set (std iterator algebra only)
#[verifier::external_body]
pub fn vx_pair_keys_to_set(pairs: &Vec<(Family, Duration)>) -> (r: FnvHashSet<Family>)
    ensures forall|f: Family| #![trigger r@.contains(f)] #![trigger pairs_has(pairs@, f)] r@.contains(f) <==> pairs_has(pairs@, f),
{
    pairs.iter().map(|(f, _)| *f).collect()
}

/// R11 helper: `v.into_iter().collect()` into a hash set
#[verifier::external_body]
pub fn vx_vec_into_set(v: Vec<Family>) -> (r: FnvHashSet<Family>)
    ensures forall|f: Family| #![trigger r@.contains(f)] #![trigger v@.contains(f)] r@.contains(f) <==> v@.contains(f),
{
    v.into_iter().collect()
}

/// R11 helper: `set.into_iter().collect()` into a vector (order unspecified)
#[verifier::external_body]
pub fn vx_set_into_vec(s: FnvHashSet<Family>) -> (r: Vec<Family>)
    ensures forall|f: Family| #![trigger r@.contains(f)] #![trigger s@.contains(f)] r@.contains(f) <==> s@.contains(f),
{
    s.into_iter().collect()
}

/// R12: `v.into_iter().filter(p).collect::<Vec<_>>()`; the predicate closure stays verbatim at the call site
/// and is verified there; assumed: std keeps exactly the elements for which the predicate returned true, in order.
#[verifier::external_body]
pub fn vx_filter_collect<T, F: Fn(&T) -> bool>(v: Vec<T>, f: F) -> (r: Vec<T>)
    requires forall|x: &T| call_requires(f, (x,)),
    ensures
        forall|i: int| 0 <= i < r@.len() ==> v@.contains(#[trigger] r@[i]) && call_ensures(f, (&r@[i],), true),
        forall|i: int| 0 <= i < v@.len() ==> (r@.contains(#[trigger] v@[i]) || call_ensures(f, (&v@[i],), false)),
{
    v.into_iter().filter(|x| f(x)).collect()
}

/// R12: `set.into_iter().filter(p).collect::<Vec<_>>()` on a hash set (order unspecified)
#[verifier::external_body]
pub fn vx_set_filter_collect<F: Fn(&Family) -> bool>(s: FnvHashSet<Family>, f: F) -> (r: Vec<Family>)
    requires forall|x: &Family| call_requires(f, (x,)),
    ensures
        forall|i: int| 0 <= i < r@.len() ==> s@.contains(#[trigger] r@[i]) && call_ensures(f, (&r@[i],), true),
        forall|x: Family| #![trigger s@.contains(x)] #![trigger r@.contains(x)] s@.contains(x) ==> (r@.contains(x) || call_ensures(f, (&x,), false)),
{
    s.into_iter().filter(|x| f(x)).collect()
}

} // verus!
