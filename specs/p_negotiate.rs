// Prelude fragment for unit packet_negotiate: std HashMap operations used by PeerCodec::negotiate as R11 / R11b helpers
// (assumed contracts; each body is the expression it replaces).
use vstd::prelude::*;
use fnv::FnvHashMap;
use crate::bgp::*;
use super::*;
verus! {

/// R11b: `m.get_mut(k)` as a mutable reference into the map
#[verifier::external_body]
pub fn vx_hm_get_mut<'a, V>(m: &'a mut FnvHashMap<Family, V>, k: &Family) -> (r: Option<&'a mut V>)
    ensures
        r is Some <==> old(m)@.contains_key(*k),
        r is Some ==> *(r->Some_0) == old(m)@[*k] && final(m)@ == old(m)@.insert(*k, *final(r->Some_0)),
        r is None ==> final(m)@ == old(m)@,
{ m.get_mut(k) }

/// the key f occurs among the first k entries
pub open spec fn seen<V>(s: Seq<(Family, V)>, k: int, f: Family) -> bool { exists|i: int| 0 <= i < k && i < s.len() && (#[trigger] s[i]).0 == f }

/// R11: `for (k, v) in m` — the entries of the map, each key once, in an unspecified order
#[verifier::external_body]
pub fn vx_hm_into_vec<V>(m: FnvHashMap<Family, V>) -> (r: Vec<(Family, V)>)
    ensures
        forall|i: int| #![trigger r@[i]] 0 <= i < r@.len() ==> m@.contains_key(r@[i].0) && m@[r@[i].0] == r@[i].1,
        forall|k: Family| #![trigger m@.contains_key(k)] m@.contains_key(k) ==> seen(r@, r@.len() as int, k),
        forall|i: int, j: int| 0 <= i < j < r@.len() ==> (#[trigger] r@[i]).0 != (#[trigger] r@[j]).0,
{ m.into_iter().collect() }

} // verus!
