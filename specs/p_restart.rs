// Prelude fragment for unit daemon_restart: the pending map of the Restarting-Speaker deferral machine
// (FnvHashMap<IpAddr, FnvHashSet<Family>>) as a finite map of sets, and the std iterator algebra over it as
// R11 / R11b helpers with ASSUMED contracts (each helper's body is the expression it replaces).
use vstd::prelude::*;
use rustybgp_packet::bgp::Family;
use fnv::{FnvHashMap, FnvHashSet};
use std::net::IpAddr;
use super::*;
verus! {

#[verifier::external_type_specification]
#[verifier::external_body]
pub struct ExIpAddrR(IpAddr);

pub broadcast axiom fn axiom_ipaddr_obeys_key_model()
    ensures #[trigger] vstd::std_specs::hash::obeys_key_model::<IpAddr>(),
;

#[verifier::external_type_specification]
#[verifier::external_body]
pub struct ExUpdateOpaqueR(rustybgp_packet::bgp::Update);

pub assume_specification<T>[ std::mem::replace ](dest: &mut T, src: T) -> (r: T)
    ensures r == *old(dest), *final(dest) == src,
;

pub type Pending = FnvHashMap<IpAddr, FnvHashSet<Family>>;

/// the pending map as "peer -> families whose End-of-RIB is still awaited"
pub open spec fn pm(m: Pending) -> Map<IpAddr, Set<Family>> {
    m@.map_values(|s: FnvHashSet<Family>| s@)
}
/// some peer is still awaited for family f
pub open spec fn waits(m: Map<IpAddr, Set<Family>>, f: Family) -> bool {
    exists|a: IpAddr| m.contains_key(a) && #[trigger] m[a].contains(f)
}

/// the same on the hash map itself
pub open spec fn waits_m(m: Pending, f: Family) -> bool {
    exists|a: IpAddr| m@.contains_key(a) && #[trigger] m@[a]@.contains(f)
}
pub broadcast proof fn lemma_waits_pm(m: Pending, f: Family)
    ensures #[trigger] waits(pm(m), f) == waits_m(m, f),
{
    if waits(pm(m), f) {
        let a = choose|a: IpAddr| pm(m).contains_key(a) && #[trigger] pm(m)[a].contains(f);
        assert(m@.contains_key(a) && m@[a]@.contains(f));
    }
    if waits_m(m, f) {
        let a = choose|a: IpAddr| m@.contains_key(a) && #[trigger] m@[a]@.contains(f);
        assert(pm(m).contains_key(a) && pm(m)[a].contains(f));
    }
}

/// R11b: `m.get_mut(&a)` — and the occupied case of `m.entry(a)` — as a mutable reference into the map
#[verifier::external_body]
pub fn vx_pending_get_mut<'a>(m: &'a mut Pending, a: &IpAddr) -> (r: Option<&'a mut FnvHashSet<Family>>)
    ensures
        r is Some <==> old(m)@.contains_key(*a),
        r is Some ==> *(r->Some_0) == old(m)@[*a] && final(m)@ == old(m)@.insert(*a, *final(r->Some_0)),
        r is None ==> final(m)@ == old(m)@,
{ m.get_mut(a) }

/// R11b: `e.insert(v)` on an occupied entry: the value is replaced, the old one returned
#[verifier::external_body]
pub fn vx_entry_insert(e: &mut FnvHashSet<Family>, v: FnvHashSet<Family>) -> (r: FnvHashSet<Family>)
    ensures r == *old(e), *final(e) == v,
{ std::mem::replace(e, v) }

/// R11: `m.values().any(f)`
#[verifier::external_body]
pub fn vx_values_any<F: Fn(&FnvHashSet<Family>) -> bool>(m: &Pending, f: F) -> (r: bool)
    requires forall|a: IpAddr| m@.contains_key(a) ==> call_requires(f, (&m@[a],)),
    ensures
        r ==> exists|a: IpAddr| m@.contains_key(a) && call_ensures(f, (&#[trigger] m@[a],), true),
        !r ==> forall|a: IpAddr| m@.contains_key(a) ==> call_ensures(f, (&#[trigger] m@[a],), false),
{ m.values().any(|x| f(x)) }

/// R11: `m.values().flatten().copied().collect::<FnvHashSet<_>>()`: the union of the sets
#[verifier::external_body]
pub fn vx_union_values_set(m: &Pending) -> (r: FnvHashSet<Family>)
    ensures forall|f: Family| #![trigger r@.contains(f)] r@.contains(f) <==> waits(pm(*m), f),
{ m.values().flatten().copied().collect() }

/// R11: `m.into_values().flatten().collect::<FnvHashSet<_>>().into_iter().collect::<Vec<_>>()`: the union, each family once
#[verifier::external_body]
pub fn vx_union_values_vec(m: Pending) -> (r: Vec<Family>)
    ensures
        forall|f: Family| #![trigger r@.contains(f)] r@.contains(f) <==> waits(pm(m), f),
        r@.no_duplicates(),
{ m.into_values().flatten().collect::<FnvHashSet<Family>>().into_iter().collect() }

/// R11: `m.into_values().flatten().collect::<Vec<_>>()`: the families of all sets, one occurrence per set that holds them
#[verifier::external_body]
pub fn vx_flatten_values_vec(m: Pending) -> (r: Vec<Family>)
    ensures forall|f: Family| #![trigger r@.contains(f)] r@.contains(f) <==> waits(pm(m), f),
{ m.into_values().flatten().collect() }

/// R11: `set.into_iter().collect::<Vec<_>>()`: every element once, order unspecified
#[verifier::external_body]
pub fn vx_set_into_vec_nodup(s: FnvHashSet<Family>) -> (r: Vec<Family>)
    ensures
        forall|f: Family| #![trigger r@.contains(f)] r@.contains(f) <==> s@.contains(f),
        r@.no_duplicates(),
{ s.into_iter().collect() }

/// R11: `set.iter().filter(p).copied().collect::<Vec<_>>()`: the elements satisfying p, each once
#[verifier::external_body]
pub fn vx_set_filter_copied<P: Fn(&&Family) -> bool>(s: &FnvHashSet<Family>, p: P) -> (r: Vec<Family>)
    requires forall|x: &&Family| call_requires(p, (x,)),
    ensures
        forall|f: Family| #![trigger r@.contains(f)] r@.contains(f) ==> s@.contains(f) && call_ensures(p, (&&f,), true),
        forall|f: Family| #![trigger s@.contains(f)] s@.contains(f) ==> (r@.contains(f) || call_ensures(p, (&&f,), false)),
        r@.no_duplicates(),
{ s.iter().filter(|x| p(x)).copied().collect() }

/// R11: `v.sort_unstable_by_key(k)`: a permutation (the key only decides the order)
#[verifier::external_body]
pub fn vx_sort_families(v: &mut Vec<Family>)
    ensures
        forall|f: Family| #![trigger final(v)@.contains(f)] final(v)@.contains(f) <==> old(v)@.contains(f),
        old(v)@.no_duplicates() ==> final(v)@.no_duplicates(),
        final(v)@.len() == old(v)@.len(),
{ v.sort_unstable_by_key(|f| (f.afi(), f.safi())) }

/// R11: `peers.into_iter().filter_map(f).collect::<FnvHashMap<_, _>>()` for an f that keeps the key (checked at the
/// call site: first precondition): the entries f maps to Some, with the value f gives them
#[verifier::external_body]
pub fn vx_peers_filter_map_collect<F: Fn((IpAddr, Vec<Family>)) -> Option<(IpAddr, FnvHashSet<Family>)>>(
    m: FnvHashMap<IpAddr, Vec<Family>>, f: F) -> (r: Pending)
    requires
        forall|a: IpAddr, v: Vec<Family>, o: (IpAddr, FnvHashSet<Family>)| #[trigger] call_ensures(f, ((a, v),), Some(o)) ==> o.0 == a,
        forall|a: IpAddr, v: Vec<Family>| call_requires(f, ((a, v),)),
    ensures
        forall|a: IpAddr| #![trigger r@.contains_key(a)] r@.contains_key(a)
            ==> m@.contains_key(a) && call_ensures(f, ((a, m@[a]),), Some((a, r@[a]))),
        forall|a: IpAddr| #![trigger m@.contains_key(a)] m@.contains_key(a) && !r@.contains_key(a)
            ==> call_ensures(f, ((a, m@[a]),), None),
{ m.into_iter().filter_map(|x| f(x)).collect() }

/// R11: `v.into_iter().collect::<FnvHashSet<_>>()`
#[verifier::external_body]
pub fn vx_fams_into_set(v: Vec<Family>) -> (r: FnvHashSet<Family>)
    ensures forall|f: Family| #![trigger r@.contains(f)] r@.contains(f) <==> v@.contains(f),
{ v.into_iter().collect() }

/*@vx:begin PRELUDE::vx_sanity*/
// must FAIL: if it verified, the assumed contracts above would be contradictory
proof fn vx_sanity__vxtwin_prelude_restart()
    ensures false,
{
}
/*@vx:end PRELUDE::vx_sanity*/

} // verus!
