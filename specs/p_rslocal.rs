// Prelude fragment for unit table_rslocal: `slice.iter().filter(p).max()` / `.min()` as one helper whose last argument
// says which of the two the code wrote (ASSUMED std contracts: Iterator::max returns an element no other yielded element
// exceeds, Iterator::min one that exceeds no other).
use vstd::prelude::*;
use vstd::std_specs::cmp::OrdSpec;
use super::*;
verus! {

pub enum VxPick { Max, Min }

#[verifier::external_body]
pub fn vx_filter_pick<'a, T: Ord, F: Fn(&&T) -> bool>(v: &'a [T], f: F, which: VxPick, Ghost(pred): Ghost<spec_fn(T) -> bool>) -> (r: Option<&'a T>)
    requires
        forall|i: int| 0 <= i < v@.len() ==> call_requires(f, (&&v@[i],)),
        // the ghost predicate is what the closure computes (checked at the call site)
        forall|x: &&T, b: bool| #[trigger] call_ensures(f, (x,), b) ==> b == pred(**x),
    ensures
        r is None ==> forall|i: int| #![trigger v@[i]] 0 <= i < v@.len() ==> !pred(v@[i]),
        r is Some ==> exists|i: int| #![trigger v@[i]] 0 <= i < v@.len() && *r->Some_0 == v@[i] && pred(v@[i])
            && forall|j: int| #![trigger v@[j]] 0 <= j < v@.len() && pred(v@[j]) ==>
                (which is Max ==> v@[j].cmp_spec(&v@[i]) != core::cmp::Ordering::Greater)
                && (which is Min ==> v@[i].cmp_spec(&v@[j]) != core::cmp::Ordering::Greater),
{
    match which {
        VxPick::Max => v.iter().filter(|x| f(x)).max(),
        VxPick::Min => v.iter().filter(|x| f(x)).min(),
    }
}

} // verus!
