// Prelude fragment: verified replacements for slice iterator chains (rewrite R12c):
//   X.iter().<adapters>.collect()  ->  vx_iter_<adapters>_collect(X.as_slice(), closures…)
// Each helper is a verified loop whose contract is stated (a) pointwise over call_ensures of the closures, which stay
// verbatim at the call site and are verified there, and (b) as an equation with vstd's Seq algebra for every pair of spec
// functions the closures are known to implement.  Assumed: std's adapters behave like these loops.
use vstd::prelude::*;
verus! {

pub open spec fn vx_pred_agrees<T, P: Fn(&&T) -> bool>(p: P, ps: spec_fn(T) -> bool) -> bool {
    forall|x: T, b: bool| #[trigger] call_ensures(p, (&&x,), b) ==> b == ps(x)
}
pub open spec fn vx_fun_agrees<T, U, F: Fn(&T) -> U>(f: F, fs: spec_fn(T) -> U) -> bool {
    forall|x: T, y: U| #[trigger] call_ensures(f, (&x,), y) ==> y == fs(x)
}
/// `T::clone` is known to return an equal value
pub open spec fn vx_clone_is_eq<T: Clone>() -> bool {
    forall|a: T, b: T| #[trigger] call_ensures(T::clone, (&a,), b) ==> a == b
}
/// `filter_map` over a sequence
pub open spec fn vx_seq_filtermap<T, U>(v: Seq<T>, fs: spec_fn(T) -> Option<U>) -> Seq<U>
    decreases v.len(),
{
    if v.len() == 0 { Seq::empty() } else {
        let r = vx_seq_filtermap(v.drop_last(), fs);
        match fs(v.last()) { Some(y) => r.push(y), None => r }
    }
}

pub fn vx_iter_map_collect<T, U, F: Fn(&T) -> U>(v: &[T], f: F) -> (r: Vec<U>)
    requires forall|i: int| #![trigger v@[i]] 0 <= i < v@.len() ==> call_requires(f, (&v@[i],)),
    ensures
        r@.len() == v@.len(),
        forall|i: int| #![trigger r@[i]] 0 <= i < v@.len() ==> call_ensures(f, (&v@[i],), r@[i]),
        forall|fs: spec_fn(T) -> U| vx_fun_agrees(f, fs) ==> r@ == #[trigger] v@.map_values(fs),
{
    let mut r: Vec<U> = Vec::new();
    let mut k: usize = 0;
    while k < v.len()
        invariant
            0 <= k <= v@.len(), r@.len() == k,
            forall|i: int| #![trigger v@[i]] 0 <= i < v@.len() ==> call_requires(f, (&v@[i],)),
            forall|i: int| #![trigger r@[i]] 0 <= i < k ==> call_ensures(f, (&v@[i],), r@[i]),
        decreases v@.len() - k,
    {
        let y = f(&v[k]);
        r.push(y);
        k += 1;
    }
    proof {
        assert forall|fs: spec_fn(T) -> U| vx_fun_agrees(f, fs) implies r@ == #[trigger] v@.map_values(fs) by {
            assert(r@ =~= v@.map_values(fs));
        }
    }
    r
}

pub fn vx_iter_filter_map_collect<T, U, P: Fn(&&T) -> bool, F: Fn(&T) -> U>(v: &[T], p: P, f: F) -> (r: Vec<U>)
    requires
        forall|i: int| #![trigger v@[i]] 0 <= i < v@.len() ==> call_requires(p, (&&v@[i],)),
        forall|i: int| #![trigger v@[i]] 0 <= i < v@.len() ==> call_requires(f, (&v@[i],)),
    ensures
        forall|ps: spec_fn(T) -> bool, fs: spec_fn(T) -> U| vx_pred_agrees(p, ps) && vx_fun_agrees(f, fs)
            ==> r@ == #[trigger] v@.filter(ps).map_values(fs),
{
    let mut r: Vec<U> = Vec::new();
    let mut k: usize = 0;
    while k < v.len()
        invariant
            0 <= k <= v@.len(),
            forall|i: int| #![trigger v@[i]] 0 <= i < v@.len() ==> call_requires(p, (&&v@[i],)),
            forall|i: int| #![trigger v@[i]] 0 <= i < v@.len() ==> call_requires(f, (&v@[i],)),
            forall|ps: spec_fn(T) -> bool, fs: spec_fn(T) -> U| vx_pred_agrees(p, ps) && vx_fun_agrees(f, fs)
                ==> r@ == #[trigger] v@.take(k as int).filter(ps).map_values(fs),
        decreases v@.len() - k,
    {
        let ghost r0 = r@;
        let keep = p(&&v[k]);
        if keep {
            let y = f(&v[k]);
            r.push(y);
        }
        proof {
            assert forall|ps: spec_fn(T) -> bool, fs: spec_fn(T) -> U| vx_pred_agrees(p, ps) && vx_fun_agrees(f, fs)
                implies r@ == #[trigger] v@.take(k + 1).filter(ps).map_values(fs) by {
                let a = v@.take(k as int);
                assert(v@.take(k + 1) =~= a.push(v@[k as int]));
                assert(r0 == a.filter(ps).map_values(fs));
                vx_lemma_filter_push(a, v@[k as int], ps);
                assert(r@ =~= v@.take(k + 1).filter(ps).map_values(fs));
            }
        }
        k += 1;
    }
    proof { assert(v@.take(v@.len() as int) =~= v@); }
    r
}

pub proof fn vx_lemma_filter_push<T>(a: Seq<T>, x: T, ps: spec_fn(T) -> bool)
    ensures a.push(x).filter(ps) == (if ps(x) { a.filter(ps).push(x) } else { a.filter(ps) }),
{
    Seq::filter_distributes_over_add(a, seq![x], ps);
    assert(a.push(x) =~= a + seq![x]);
    reveal_with_fuel(Seq::filter, 3);
    assert(seq![x].filter(ps) =~= if ps(x) { seq![x] } else { Seq::empty() });
    assert(a.filter(ps) + seq![x] =~= a.filter(ps).push(x));
    assert(a.filter(ps) + Seq::<T>::empty() =~= a.filter(ps));
}

pub fn vx_iter_filter_cloned_collect<T: Clone, P: Fn(&&T) -> bool>(v: &[T], p: P) -> (r: Vec<T>)
    requires forall|i: int| #![trigger v@[i]] 0 <= i < v@.len() ==> call_requires(p, (&&v@[i],)),
    ensures
        forall|ps: spec_fn(T) -> bool| vx_pred_agrees(p, ps) && vx_clone_is_eq::<T>() ==> r@ == #[trigger] v@.filter(ps),
{
    let mut r: Vec<T> = Vec::new();
    let mut k: usize = 0;
    while k < v.len()
        invariant
            0 <= k <= v@.len(),
            forall|i: int| #![trigger v@[i]] 0 <= i < v@.len() ==> call_requires(p, (&&v@[i],)),
            forall|ps: spec_fn(T) -> bool| vx_pred_agrees(p, ps) && vx_clone_is_eq::<T>() ==> r@ == #[trigger] v@.take(k as int).filter(ps),
        decreases v@.len() - k,
    {
        let ghost r0 = r@;
        let keep = p(&&v[k]);
        if keep {
            let y = v[k].clone();
            r.push(y);
        }
        proof {
            assert forall|ps: spec_fn(T) -> bool| vx_pred_agrees(p, ps) && vx_clone_is_eq::<T>()
                implies r@ == #[trigger] v@.take(k + 1).filter(ps) by {
                let a = v@.take(k as int);
                assert(v@.take(k + 1) =~= a.push(v@[k as int]));
                assert(r0 == a.filter(ps));
                vx_lemma_filter_push(a, v@[k as int], ps);
            }
        }
        k += 1;
    }
    proof { assert(v@.take(v@.len() as int) =~= v@); }
    r
}

pub fn vx_iter_cloned_collect<T: Clone>(v: &[T]) -> (r: Vec<T>)
    ensures
        r@.len() == v@.len(),
        vx_clone_is_eq::<T>() ==> r@ == v@,
{
    let mut r: Vec<T> = Vec::new();
    let mut k: usize = 0;
    while k < v.len()
        invariant
            0 <= k <= v@.len(), r@.len() == k,
            vx_clone_is_eq::<T>() ==> r@ == v@.take(k as int),
        decreases v@.len() - k,
    {
        let y = v[k].clone();
        r.push(y);
        proof { assert(v@.take(k + 1) =~= v@.take(k as int).push(v@[k as int])); }
        k += 1;
    }
    proof { assert(v@.take(v@.len() as int) =~= v@); }
    r
}

pub fn vx_iter_filtermap_collect<T, U, F: Fn(&T) -> Option<U>>(v: &[T], f: F) -> (r: Vec<U>)
    requires forall|i: int| #![trigger v@[i]] 0 <= i < v@.len() ==> call_requires(f, (&v@[i],)),
    ensures
        forall|fs: spec_fn(T) -> Option<U>| vx_fun_agrees(f, fs) ==> r@ == #[trigger] vx_seq_filtermap(v@, fs),
{
    let mut r: Vec<U> = Vec::new();
    let mut k: usize = 0;
    while k < v.len()
        invariant
            0 <= k <= v@.len(),
            forall|i: int| #![trigger v@[i]] 0 <= i < v@.len() ==> call_requires(f, (&v@[i],)),
            forall|fs: spec_fn(T) -> Option<U>| vx_fun_agrees(f, fs) ==> r@ == #[trigger] vx_seq_filtermap(v@.take(k as int), fs),
        decreases v@.len() - k,
    {
        let ghost r0 = r@;
        match f(&v[k]) {
            Some(y) => { r.push(y); }
            None => {}
        }
        proof {
            assert forall|fs: spec_fn(T) -> Option<U>| vx_fun_agrees(f, fs)
                implies r@ == #[trigger] vx_seq_filtermap(v@.take(k + 1), fs) by {
                let a = v@.take(k as int);
                assert(v@.take(k + 1).drop_last() =~= a);
                assert(v@.take(k + 1).last() == v@[k as int]);
                assert(r0 == vx_seq_filtermap(a, fs));
            }
        }
        k += 1;
    }
    proof { assert(v@.take(v@.len() as int) =~= v@); }
    r
}

pub open spec fn vx_pred1_agrees<T, P: Fn(&T) -> bool>(p: P, ps: spec_fn(T) -> bool) -> bool {
    forall|x: T, b: bool| #[trigger] call_ensures(p, (&x,), b) ==> b == ps(x)
}
/// the sequence is partitioned by ps at index pp (all true before, all false from pp on)
pub open spec fn vx_split_at<T>(v: Seq<T>, ps: spec_fn(T) -> bool, pp: int) -> bool {
    0 <= pp <= v.len()
    && (forall|i: int| #![trigger v[i]] 0 <= i < pp ==> ps(v[i]))
    && (forall|i: int| #![trigger v[i]] pp <= i < v.len() ==> !ps(v[i]))
}
/// slice::partition_point: std specifies the result only for a partitioned slice (binary search); this loop returns
/// the first index whose element fails the predicate, which is the partition point whenever one exists — the
/// contract promises no more than std does
pub fn vx_partition_point<T, P: Fn(&T) -> bool>(v: &[T], p: P) -> (r: usize)
    requires forall|i: int| #![trigger v@[i]] 0 <= i < v@.len() ==> call_requires(p, (&v@[i],)),
    ensures
        r <= v@.len(),
        forall|ps: spec_fn(T) -> bool, pp: int| vx_pred1_agrees(p, ps) && #[trigger] vx_split_at(v@, ps, pp) ==> r == pp,
{
    let mut k: usize = 0;
    while k < v.len()
        invariant
            0 <= k <= v@.len(),
            forall|i: int| #![trigger v@[i]] 0 <= i < v@.len() ==> call_requires(p, (&v@[i],)),
            forall|i: int| #![trigger v@[i]] 0 <= i < k ==> call_ensures(p, (&v@[i],), true),
        decreases v@.len() - k,
    {
        if !p(&v[k]) {
            assert forall|ps: spec_fn(T) -> bool, pp: int| vx_pred1_agrees(p, ps) && #[trigger] vx_split_at(v@, ps, pp) implies k == pp by {
                if pp < k { assert(call_ensures(p, (&v@[pp],), true)); }
                if pp > k { assert(call_ensures(p, (&v@[k as int],), false)); }
            }
            return k;
        }
        k += 1;
    }
    assert forall|ps: spec_fn(T) -> bool, pp: int| vx_pred1_agrees(p, ps) && #[trigger] vx_split_at(v@, ps, pp) implies k == pp by {
        if pp < k { assert(call_ensures(p, (&v@[pp],), true)); }
    }
    k
}

// ---- R12: slice iterator algebra as verified loops -----------------------------------------------
/// `slice.iter().find(p)`: the first element satisfying p
pub fn vx_find<T, F: Fn(&&T) -> bool>(v: &[T], f: F) -> (r: Option<&T>)
    requires forall|i: int| 0 <= i < v@.len() ==> call_requires(f, (&&v@[i],)),
    ensures
        r is None ==> forall|i: int| #![trigger v@[i]] 0 <= i < v@.len() ==> call_ensures(f, (&&v@[i],), false),
        r is Some ==> exists|i: int| #![trigger v@[i]] 0 <= i < v@.len() && *r->Some_0 == v@[i] && call_ensures(f, (&&v@[i],), true)
            && forall|j: int| #![trigger v@[j]] 0 <= j < i ==> call_ensures(f, (&&v@[j],), false),
{
    let mut k: usize = 0;
    while k < v.len()
        invariant
            0 <= k <= v@.len(),
            forall|i: int| 0 <= i < v@.len() ==> call_requires(f, (&&v@[i],)),
            forall|i: int| #![trigger v@[i]] 0 <= i < k ==> call_ensures(f, (&&v@[i],), false),
        decreases v@.len() - k,
    {
        let x = &v[k];
        if f(&x) {
            return Some(x);
        }
        k += 1;
    }
    None
}

/// `slice.iter().take_while(p).collect::<Vec<&T>>()`: the longest prefix whose elements all satisfy p
pub fn vx_take_while_collect<T, F: Fn(&&T) -> bool>(v: &[T], f: F) -> (r: Vec<&T>)
    requires forall|i: int| 0 <= i < v@.len() ==> call_requires(f, (&&v@[i],)),
    ensures
        r@.len() <= v@.len(),
        forall|i: int| #![trigger v@[i]] 0 <= i < r@.len() ==> *r@[i] == v@[i] && call_ensures(f, (&&v@[i],), true),
        r@.len() < v@.len() ==> call_ensures(f, (&&v@[r@.len() as int],), false),
{
    let mut out: Vec<&T> = Vec::new();
    let mut k: usize = 0;
    while k < v.len()
        invariant
            0 <= k <= v@.len(),
            out@.len() == k,
            forall|i: int| 0 <= i < v@.len() ==> call_requires(f, (&&v@[i],)),
            forall|i: int| #![trigger v@[i]] 0 <= i < k ==> *out@[i] == v@[i] && call_ensures(f, (&&v@[i],), true),
        decreases v@.len() - k,
    {
        let x = &v[k];
        if !f(&x) {
            return out;
        }
        out.push(x);
        k += 1;
    }
    out
}


} // verus!
