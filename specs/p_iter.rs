// Prelude fragment: verified replacements for slice iterator chains (rewrite R12c):
//   X.iter().<adapters>.collect()  ->  vx_iter_<adapters>_collect(X.as_slice(), closures…)
// Each helper is a verified loop whose contract is stated (a) pointwise over call_ensures of the closures, which stay
// verbatim at the call site and are verified there, and (b) as an equation with vstd's Seq algebra for every pair of spec
// functions the closures are known to implement.  Assumed: std's adapters behave like these loops.
use vstd::prelude::*;
verus! {

pub open spec fn vx_pred_agrees<T, P: Fn(&&T) -> bool>(p: P, ps: spec_fn(T) -> bool) -> bool {
    forall|x: T, b: bool| #[trigger] call_ensures(p, (&&x,), b) ==> b == ps(x)
}
pub open spec fn vx_fun_agrees<T, U, F: Fn(&T) -> U>(f: F, fs: spec_fn(T) -> U) -> bool {
    forall|x: T, y: U| #[trigger] call_ensures(f, (&x,), y) ==> y == fs(x)
}
/// `T::clone` is known to return an equal value
pub open spec fn vx_clone_is_eq<T: Clone>() -> bool {
    forall|a: T, b: T| #[trigger] call_ensures(T::clone, (&a,), b) ==> a == b
}
/// `filter_map` over a sequence
pub open spec fn vx_seq_filtermap<T, U>(v: Seq<T>, fs: spec_fn(T) -> Option<U>) -> Seq<U>
    decreases v.len(),
{
    if v.len() == 0 { Seq::empty() } else {
        let r = vx_seq_filtermap(v.drop_last(), fs);
        match fs(v.last()) { Some(y) => r.push(y), None => r }
    }
}

pub fn vx_iter_map_collect<T, U, F: Fn(&T) -> U>(v: &[T], f: F) -> (r: Vec<U>)
    requires forall|i: int| #![trigger v@[i]] 0 <= i < v@.len() ==> call_requires(f, (&v@[i],)),
    ensures
        r@.len() == v@.len(),
        forall|i: int| #![trigger r@[i]] 0 <= i < v@.len() ==> call_ensures(f, (&v@[i],), r@[i]),
        forall|fs: spec_fn(T) -> U| vx_fun_agrees(f, fs) ==> r@ == #[trigger] v@.map_values(fs),
{
    let mut r: Vec<U> = Vec::new();
    let mut k: usize = 0;
    while k < v.len()
        invariant
            0 <= k <= v@.len(), r@.len() == k,
            forall|i: int| #![trigger v@[i]] 0 <= i < v@.len() ==> call_requires(f, (&v@[i],)),
            forall|i: int| #![trigger r@[i]] 0 <= i < k ==> call_ensures(f, (&v@[i],), r@[i]),
        decreases v@.len() - k,
    {
        let y = f(&v[k]);
        r.push(y);
        k += 1;
    }
    proof {
        assert forall|fs: spec_fn(T) -> U| vx_fun_agrees(f, fs) implies r@ == #[trigger] v@.map_values(fs) by {
            assert(r@ =~= v@.map_values(fs));
        }
    }
    r
}

pub fn vx_iter_filter_map_collect<T, U, P: Fn(&&T) -> bool, F: Fn(&T) -> U>(v: &[T], p: P, f: F) -> (r: Vec<U>)
    requires
        forall|i: int| #![trigger v@[i]] 0 <= i < v@.len() ==> call_requires(p, (&&v@[i],)),
        forall|i: int| #![trigger v@[i]] 0 <= i < v@.len() ==> call_requires(f, (&v@[i],)),
    ensures
        forall|ps: spec_fn(T) -> bool, fs: spec_fn(T) -> U| vx_pred_agrees(p, ps) && vx_fun_agrees(f, fs)
            ==> r@ == #[trigger] v@.filter(ps).map_values(fs),
{
    let mut r: Vec<U> = Vec::new();
    let mut k: usize = 0;
    while k < v.len()
        invariant
            0 <= k <= v@.len(),
            forall|i: int| #![trigger v@[i]] 0 <= i < v@.len() ==> call_requires(p, (&&v@[i],)),
            forall|i: int| #![trigger v@[i]] 0 <= i < v@.len() ==> call_requires(f, (&v@[i],)),
            forall|ps: spec_fn(T) -> bool, fs: spec_fn(T) -> U| vx_pred_agrees(p, ps) && vx_fun_agrees(f, fs)
                ==> r@ == #[trigger] v@.take(k as int).filter(ps).map_values(fs),
        decreases v@.len() - k,
    {
        let ghost r0 = r@;
        let keep = p(&&v[k]);
        if keep {
            let y = f(&v[k]);
            r.push(y);
        }
        proof {
            assert forall|ps: spec_fn(T) -> bool, fs: spec_fn(T) -> U| vx_pred_agrees(p, ps) && vx_fun_agrees(f, fs)
                implies r@ == #[trigger] v@.take(k + 1).filter(ps).map_values(fs) by {
                let a = v@.take(k as int);
                assert(v@.take(k + 1) =~= a.push(v@[k as int]));
                assert(r0 == a.filter(ps).map_values(fs));
                vx_lemma_filter_push(a, v@[k as int], ps);
                assert(r@ =~= v@.take(k + 1).filter(ps).map_values(fs));
            }
        }
        k += 1;
    }
    proof { assert(v@.take(v@.len() as int) =~= v@); }
    r
}

pub proof fn vx_lemma_filter_push<T>(a: Seq<T>, x: T, ps: spec_fn(T) -> bool)
    ensures a.push(x).filter(ps) == (if ps(x) { a.filter(ps).push(x) } else { a.filter(ps) }),
{
    Seq::filter_distributes_over_add(a, seq![x], ps);
    assert(a.push(x) =~= a + seq![x]);
    reveal_with_fuel(Seq::filter, 3);
    assert(seq![x].filter(ps) =~= if ps(x) { seq![x] } else { Seq::empty() });
    assert(a.filter(ps) + seq![x] =~= a.filter(ps).push(x));
    assert(a.filter(ps) + Seq::<T>::empty() =~= a.filter(ps));
}

pub fn vx_iter_filter_cloned_collect<T: Clone, P: Fn(&&T) -> bool>(v: &[T], p: P) -> (r: Vec<T>)
    requires forall|i: int| #![trigger v@[i]] 0 <= i < v@.len() ==> call_requires(p, (&&v@[i],)),
    ensures
        forall|ps: spec_fn(T) -> bool| vx_pred_agrees(p, ps) && vx_clone_is_eq::<T>() ==> r@ == #[trigger] v@.filter(ps),
{
    let mut r: Vec<T> = Vec::new();
    let mut k: usize = 0;
    while k < v.len()
        invariant
            0 <= k <= v@.len(),
            forall|i: int| #![trigger v@[i]] 0 <= i < v@.len() ==> call_requires(p, (&&v@[i],)),
            forall|ps: spec_fn(T) -> bool| vx_pred_agrees(p, ps) && vx_clone_is_eq::<T>() ==> r@ == #[trigger] v@.take(k as int).filter(ps),
        decreases v@.len() - k,
    {
        let ghost r0 = r@;
        let keep = p(&&v[k]);
        if keep {
            let y = v[k].clone();
            r.push(y);
        }
        proof {
            assert forall|ps: spec_fn(T) -> bool| vx_pred_agrees(p, ps) && vx_clone_is_eq::<T>()
                implies r@ == #[trigger] v@.take(k + 1).filter(ps) by {
                let a = v@.take(k as int);
                assert(v@.take(k + 1) =~= a.push(v@[k as int]));
                assert(r0 == a.filter(ps));
                vx_lemma_filter_push(a, v@[k as int], ps);
            }
        }
        k += 1;
    }
    proof { assert(v@.take(v@.len() as int) =~= v@); }
    r
}

pub fn vx_iter_cloned_collect<T: Clone>(v: &[T]) -> (r: Vec<T>)
    ensures
        r@.len() == v@.len(),
        vx_clone_is_eq::<T>() ==> r@ == v@,
{
    let mut r: Vec<T> = Vec::new();
    let mut k: usize = 0;
    while k < v.len()
        invariant
            0 <= k <= v@.len(), r@.len() == k,
            vx_clone_is_eq::<T>() ==> r@ == v@.take(k as int),
        decreases v@.len() - k,
    {
        let y = v[k].clone();
        r.push(y);
        proof { assert(v@.take(k + 1) =~= v@.take(k as int).push(v@[k as int])); }
        k += 1;
    }
    proof { assert(v@.take(v@.len() as int) =~= v@); }
    r
}

pub fn vx_iter_filtermap_collect<T, U, F: Fn(&T) -> Option<U>>(v: &[T], f: F) -> (r: Vec<U>)
    requires forall|i: int| #![trigger v@[i]] 0 <= i < v@.len() ==> call_requires(f, (&v@[i],)),
    ensures
        forall|fs: spec_fn(T) -> Option<U>| vx_fun_agrees(f, fs) ==> r@ == #[trigger] vx_seq_filtermap(v@, fs),
{
    let mut r: Vec<U> = Vec::new();
    let mut k: usize = 0;
    while k < v.len()
        invariant
            0 <= k <= v@.len(),
            forall|i: int| #![trigger v@[i]] 0 <= i < v@.len() ==> call_requires(f, (&v@[i],)),
            forall|fs: spec_fn(T) -> Option<U>| vx_fun_agrees(f, fs) ==> r@ == #[trigger] vx_seq_filtermap(v@.take(k as int), fs),
        decreases v@.len() - k,
    {
        let ghost r0 = r@;
        match f(&v[k]) {
            Some(y) => { r.push(y); }
            None => {}
        }
        proof {
            assert forall|fs: spec_fn(T) -> Option<U>| vx_fun_agrees(f, fs)
                implies r@ == #[trigger] vx_seq_filtermap(v@.take(k + 1), fs) by {
                let a = v@.take(k as int);
                assert(v@.take(k + 1).drop_last() =~= a);
                assert(v@.take(k + 1).last() == v@[k as int]);
                assert(r0 == vx_seq_filtermap(a, fs));
            }
        }
        k += 1;
    }
    proof { assert(v@.take(v@.len() as int) =~= v@); }
    r
}

pub open spec fn vx_pred1_agrees<T, P: Fn(&T) -> bool>(p: P, ps: spec_fn(T) -> bool) -> bool {
    forall|x: T, b: bool| #[trigger] call_ensures(p, (&x,), b) ==> b == ps(x)
}
/// the sequence is partitioned by ps at index pp (all true before, all false from pp on)
pub open spec fn vx_split_at<T>(v: Seq<T>, ps: spec_fn(T) -> bool, pp: int) -> bool {
    0 <= pp <= v.len()
    && (forall|i: int| #![trigger v[i]] 0 <= i < pp ==> ps(v[i]))
    && (forall|i: int| #![trigger v[i]] pp <= i < v.len() ==> !ps(v[i]))
}
/// slice::partition_point (binary search): a deterministic function of the slice and the predicate, within 0..=len;
/// std specifies which index only for a partitioned slice — then it is the partition point.  Assumed (std), not verified.
pub uninterp spec fn vx_partition_point_spec<T>(v: Seq<T>, ps: spec_fn(T) -> bool) -> int;
#[verifier::external_body]
pub fn vx_partition_point<T, P: Fn(&T) -> bool>(v: &[T], p: P) -> (r: usize)
    requires forall|i: int| #![trigger v@[i]] 0 <= i < v@.len() ==> call_requires(p, (&v@[i],)),
    ensures
        r <= v@.len(),
        forall|ps: spec_fn(T) -> bool| vx_pred1_agrees(p, ps) ==> r == #[trigger] vx_partition_point_spec(v@, ps),
        forall|ps: spec_fn(T) -> bool, pp: int| vx_pred1_agrees(p, ps) && #[trigger] vx_split_at(v@, ps, pp) ==> r == pp,
{
    v.partition_point(|x| p(x))
}

pub open spec fn vx_and3<T>(a: spec_fn(T) -> bool, b: spec_fn(T) -> bool, c: spec_fn(T) -> bool) -> spec_fn(T) -> bool {
    |x: T| a(x) && b(x) && c(x)
}
/// the first n elements (all of them when there are fewer)
pub open spec fn vx_seq_first_n<T>(s: Seq<T>, n: int) -> Seq<T> { if 0 <= n < s.len() { s.take(n) } else { s } }
/// `v.iter().filter(a).filter(b).filter(c).take(n).filter_map(f)`
pub open spec fn vx_top_n<T, V>(v: Seq<T>, a: spec_fn(T) -> bool, b: spec_fn(T) -> bool, c: spec_fn(T) -> bool, n: int, fs: spec_fn(T) -> Option<V>) -> Seq<V> {
    vx_seq_filtermap(vx_seq_first_n(v.filter(vx_and3(a, b, c)), n), fs)
}
pub open spec fn vx_opt_view<U, V>(o: Option<U>, view: spec_fn(U) -> V) -> Option<V> { match o { Some(u) => Some(view(u)), None => None } }
/// the closure implements fs up to the view of its results (Vec-valued results are compared by their views)
pub open spec fn vx_fun_agrees_v<T, U, V, F: Fn(&T) -> Option<U>>(f: F, fs: spec_fn(T) -> Option<V>, view: spec_fn(U) -> V) -> bool {
    forall|x: T, y: Option<U>| #[trigger] call_ensures(f, (&x,), y) ==> vx_opt_view(y, view) == fs(x)
}
pub open spec fn vx_topn_state<T, V>(v: Seq<T>, a: spec_fn(T) -> bool, b: spec_fn(T) -> bool, c: spec_fn(T) -> bool, fs: spec_fn(T) -> Option<V>) -> (int, Seq<V>) {
    (v.filter(vx_and3(a, b, c)).len() as int, vx_seq_filtermap(v.filter(vx_and3(a, b, c)), fs))
}
/// membership in a filtered sequence, and filtering keeps a sequence duplicate-free
pub proof fn vx_lemma_filter_members<T>(s: Seq<T>, ps: spec_fn(T) -> bool)
    ensures
        forall|y: T| #![trigger s.filter(ps).contains(y)] s.filter(ps).contains(y) <==> (s.contains(y) && ps(y)),
        s.no_duplicates() ==> s.filter(ps).no_duplicates(),
        s.filter(ps).len() <= s.len(),
    decreases s.len(),
{
    if s.len() == 0 {
        reveal_with_fuel(Seq::filter, 1);
        assert(s.filter(ps) =~= Seq::<T>::empty());
    } else {
        let t = s.drop_last();
        let x = s.last();
        vx_lemma_filter_members(t, ps);
        vx_lemma_filter_push(t, x, ps);
        assert(s =~= t.push(x));
        let ft = t.filter(ps);
        let fs = s.filter(ps);
        assert forall|y: T| fs.contains(y) <==> (s.contains(y) && ps(y)) by {
            if fs.contains(y) {
                let i = choose|i: int| 0 <= i < fs.len() && fs[i] == y;
                if ps(x) && i == ft.len() {
                    assert(y == x);
                    assert(s[s.len() - 1] == y);
                } else {
                    assert(ft[i] == y);
                    assert(ft.contains(y));
                    let j = choose|j: int| 0 <= j < t.len() && t[j] == y;
                    assert(s[j] == y);
                }
            }
            if s.contains(y) && ps(y) {
                let j = choose|j: int| 0 <= j < s.len() && s[j] == y;
                if j < t.len() {
                    assert(t[j] == y);
                    assert(t.contains(y));
                    assert(ft.contains(y));
                    let i = choose|i: int| 0 <= i < ft.len() && ft[i] == y;
                    assert(fs[i] == y);
                } else {
                    assert(y == x);
                    assert(fs[fs.len() - 1] == y);
                }
            }
        }
        if s.no_duplicates() {
            assert(t.no_duplicates()) by {
                assert forall|i: int, j: int| 0 <= i < t.len() && 0 <= j < t.len() && i != j implies t[i] != t[j] by {
                    assert(s[i] == t[i] && s[j] == t[j]);
                }
            }
            if ps(x) {
                assert(!t.contains(x)) by {
                    if t.contains(x) {
                        let j = choose|j: int| 0 <= j < t.len() && t[j] == x;
                        assert(s[j] == x && s[s.len() - 1] == x);
                    }
                }
                assert(!ft.contains(x));
                assert forall|i: int, j: int| 0 <= i < fs.len() && 0 <= j < fs.len() && i != j implies fs[i] != fs[j] by {
                    if i == ft.len() { assert(ft[j] == fs[j]); assert(ft.contains(fs[j])); }
                    else if j == ft.len() { assert(ft[i] == fs[i]); assert(ft.contains(fs[i])); }
                    else { assert(ft[i] == fs[i] && ft[j] == fs[j]); }
                }
            }
        }
    }
}

pub proof fn vx_lemma_filter_prefix<T>(v: Seq<T>, k: int, ps: spec_fn(T) -> bool)
    requires 0 <= k <= v.len(),
    ensures v.filter(ps) == v.take(k).filter(ps) + v.skip(k).filter(ps),
{
    Seq::filter_distributes_over_add(v.take(k), v.skip(k), ps);
    assert(v =~= v.take(k) + v.skip(k));
}

/// every result was returned by the closure for some element
pub open spec fn vx_results_from<T, U, F: Fn(&T) -> Option<U>>(r: Seq<U>, v: Seq<T>, f: F) -> bool {
    forall|i: int| #![trigger r[i]] 0 <= i < r.len() ==> exists|j: int| #![trigger v[j]] 0 <= j < v.len() && call_ensures(f, (&v[j],), Some(r[i]))
}
/// `v.iter().filter(p1).filter(p2).filter(p3).take(n).filter_map(f).collect()`; the ghost `view` says how results are
/// compared with the reference (Vec-valued results by their sequence view)
pub fn vx_iter_filter_filter_filter_take_filtermap_collect<T, U, V, P1: Fn(&&T) -> bool, P2: Fn(&&T) -> bool, P3: Fn(&&T) -> bool, F: Fn(&T) -> Option<U>>(
    v: &[T], p1: P1, p2: P2, p3: P3, n: usize, f: F, Ghost(view): Ghost<spec_fn(U) -> V>) -> (r: Vec<U>)
    requires
        forall|i: int| #![trigger v@[i]] 0 <= i < v@.len() ==> call_requires(p1, (&&v@[i],)) && call_requires(p2, (&&v@[i],)) && call_requires(p3, (&&v@[i],)) && call_requires(f, (&v@[i],)),
    ensures
        forall|a: spec_fn(T) -> bool, b: spec_fn(T) -> bool, c: spec_fn(T) -> bool, fs: spec_fn(T) -> Option<V>|
            vx_pred_agrees(p1, a) && vx_pred_agrees(p2, b) && vx_pred_agrees(p3, c) && vx_fun_agrees_v(f, fs, view)
            ==> r@.map_values(view) == #[trigger] vx_top_n(v@, a, b, c, n as int, fs),
        vx_results_from(r@, v@, f),
{
    let mut r: Vec<U> = Vec::new();
    let mut taken: usize = 0;
    let mut k: usize = 0;
    while k < v.len() && taken < n
        invariant
            0 <= k <= v@.len(), taken <= n, taken <= k,
            vx_results_from(r@, v@, f),
            forall|i: int| #![trigger v@[i]] 0 <= i < v@.len() ==> call_requires(p1, (&&v@[i],)) && call_requires(p2, (&&v@[i],)) && call_requires(p3, (&&v@[i],)) && call_requires(f, (&v@[i],)),
            forall|a: spec_fn(T) -> bool, b: spec_fn(T) -> bool, c: spec_fn(T) -> bool, fs: spec_fn(T) -> Option<V>|
                vx_pred_agrees(p1, a) && vx_pred_agrees(p2, b) && vx_pred_agrees(p3, c) && vx_fun_agrees_v(f, fs, view)
                ==> (taken as int, r@.map_values(view)) == #[trigger] vx_topn_state(v@.take(k as int), a, b, c, fs),
        decreases v@.len() - k,
    {
        let ghost r0 = r@;
        let ghost taken0 = taken;
        let x = &v[k];
        let keep = p1(&x) && p2(&x) && p3(&x);
        let ghost mut fy: Option<U> = None;
        if keep {
            taken += 1;
            let o = f(x);
            proof { fy = o; }
            match o {
                Some(y) => {
                    r.push(y);
                    proof {
                        assert forall|i: int| 0 <= i < r@.len() implies exists|j: int| #![trigger v@[j]] 0 <= j < v@.len() && call_ensures(f, (&v@[j],), Some(#[trigger] r@[i])) by {
                            if i < r0.len() { assert(r@[i] == r0[i]); } else { assert(call_ensures(f, (&v@[k as int],), Some(r@[i]))); }
                        }
                    }
                }
                None => {}
            }
        }
        proof {
            assert forall|a: spec_fn(T) -> bool, b: spec_fn(T) -> bool, c: spec_fn(T) -> bool, fs: spec_fn(T) -> Option<V>|
                vx_pred_agrees(p1, a) && vx_pred_agrees(p2, b) && vx_pred_agrees(p3, c) && vx_fun_agrees_v(f, fs, view)
                implies (taken as int, r@.map_values(view)) == #[trigger] vx_topn_state(v@.take(k + 1), a, b, c, fs) by {
                let pre = v@.take(k as int);
                let ps = vx_and3(a, b, c);
                assert(v@.take(k + 1) =~= pre.push(v@[k as int]));
                vx_lemma_filter_push(pre, v@[k as int], ps);
                assert((taken0 as int, r0.map_values(view)) == vx_topn_state(pre, a, b, c, fs));
                assert(keep == ps(v@[k as int]));
                if keep {
                    let g = pre.filter(ps).push(v@[k as int]);
                    assert(g.drop_last() =~= pre.filter(ps));
                    assert(g.last() == v@[k as int]);
                    assert(vx_opt_view(fy, view) == fs(v@[k as int]));
                    match fy {
                        Some(y) => { assert(r@.map_values(view) =~= r0.map_values(view).push(view(y))); }
                        None => {}
                    }
                }
            }
        }
        k += 1;
    }
    proof {
        assert forall|a: spec_fn(T) -> bool, b: spec_fn(T) -> bool, c: spec_fn(T) -> bool, fs: spec_fn(T) -> Option<V>|
            vx_pred_agrees(p1, a) && vx_pred_agrees(p2, b) && vx_pred_agrees(p3, c) && vx_fun_agrees_v(f, fs, view)
            implies r@.map_values(view) == #[trigger] vx_top_n(v@, a, b, c, n as int, fs) by {
            let ps = vx_and3(a, b, c);
            let pre = v@.take(k as int).filter(ps);
            assert((taken as int, r@.map_values(view)) == vx_topn_state(v@.take(k as int), a, b, c, fs));
            vx_lemma_filter_prefix(v@, k as int, ps);
            let whole = v@.filter(ps);
            if k == v@.len() {
                assert(v@.take(k as int) =~= v@);
                assert(vx_seq_first_n(whole, n as int) =~= whole);
            } else {
                assert(taken == n);
                assert(whole.take(n as int) =~= pre);
                assert(vx_seq_first_n(whole, n as int) =~= pre);
            }
        }
    }
    r
}


/// every element of a filtered sequence is an element of the original that satisfies the predicate
pub proof fn vx_lemma_filter_elements<T>(s: Seq<T>, ps: spec_fn(T) -> bool)
    ensures forall|i: int| #![trigger s.filter(ps)[i]] 0 <= i < s.filter(ps).len() ==> ps(s.filter(ps)[i]) && s.contains(s.filter(ps)[i]),
    decreases s.len(),
{
    if s.len() == 0 {
        reveal_with_fuel(Seq::filter, 1);
    } else {
        let t = s.drop_last();
        vx_lemma_filter_elements(t, ps);
        assert(s =~= t.push(s.last()));
        vx_lemma_filter_push(t, s.last(), ps);
        assert forall|i: int| 0 <= i < s.filter(ps).len() implies ps(#[trigger] s.filter(ps)[i]) && s.contains(s.filter(ps)[i]) by {
            if i < t.filter(ps).len() {
                assert(s.filter(ps)[i] == t.filter(ps)[i]);
                let j = choose|j: int| 0 <= j < t.len() && t[j] == t.filter(ps)[i];
                assert(s[j] == t[j]);
            } else {
                assert(s.filter(ps)[i] == s.last());
                assert(s[s.len() - 1] == s.last());
            }
        }
    }
}

// ---- R12: slice iterator algebra as verified loops -----------------------------------------------
/// `slice.iter().find(p)`: the first element satisfying p
pub fn vx_find<T, F: Fn(&&T) -> bool>(v: &[T], f: F) -> (r: Option<&T>)
    requires forall|i: int| 0 <= i < v@.len() ==> call_requires(f, (&&v@[i],)),
    ensures
        r is None ==> forall|i: int| #![trigger v@[i]] 0 <= i < v@.len() ==> call_ensures(f, (&&v@[i],), false),
        r is Some ==> exists|i: int| #![trigger v@[i]] 0 <= i < v@.len() && *r->Some_0 == v@[i] && call_ensures(f, (&&v@[i],), true)
            && forall|j: int| #![trigger v@[j]] 0 <= j < i ==> call_ensures(f, (&&v@[j],), false),
{
    let mut k: usize = 0;
    while k < v.len()
        invariant
            0 <= k <= v@.len(),
            forall|i: int| 0 <= i < v@.len() ==> call_requires(f, (&&v@[i],)),
            forall|i: int| #![trigger v@[i]] 0 <= i < k ==> call_ensures(f, (&&v@[i],), false),
        decreases v@.len() - k,
    {
        let x = &v[k];
        if f(&x) {
            return Some(x);
        }
        k += 1;
    }
    None
}

/// `slice.iter().take_while(p).collect::<Vec<&T>>()`: the longest prefix whose elements all satisfy p
pub fn vx_take_while_collect<T, F: Fn(&&T) -> bool>(v: &[T], f: F) -> (r: Vec<&T>)
    requires forall|i: int| 0 <= i < v@.len() ==> call_requires(f, (&&v@[i],)),
    ensures
        r@.len() <= v@.len(),
        forall|i: int| #![trigger v@[i]] 0 <= i < r@.len() ==> *r@[i] == v@[i] && call_ensures(f, (&&v@[i],), true),
        r@.len() < v@.len() ==> call_ensures(f, (&&v@[r@.len() as int],), false),
{
    let mut out: Vec<&T> = Vec::new();
    let mut k: usize = 0;
    while k < v.len()
        invariant
            0 <= k <= v@.len(),
            out@.len() == k,
            forall|i: int| 0 <= i < v@.len() ==> call_requires(f, (&&v@[i],)),
            forall|i: int| #![trigger v@[i]] 0 <= i < k ==> *out@[i] == v@[i] && call_ensures(f, (&&v@[i],), true),
        decreases v@.len() - k,
    {
        let x = &v[k];
        if !f(&x) {
            return out;
        }
        out.push(x);
        k += 1;
    }
    out
}


} // verus!
