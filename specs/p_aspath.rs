// Prelude fragment for unit packet_aspath: Vec<u8> as a bytes::BufMut (put_* append to the vector), slice copies,
// the AS_PATH segment structure Attribute::decode validates (RFC 4271 §4.3) and what the edits mean on it.
use vstd::prelude::*;
use bytes::BufMut;
use super::*;
verus! {


/// `dst.put(&src[from..])`: appends the tail of src
#[verifier::external_body]
pub fn vx_put_tail(dst: &mut Vec<u8>, src: &Vec<u8>, from: usize)
    requires from <= src@.len(),
    ensures final(dst)@ == old(dst)@ + src@.subrange(from as int, src@.len() as int),
{ dst.put(&src[from..]); }
/// `dst.put(&src[from..to])`
#[verifier::external_body]
pub fn vx_put_range(dst: &mut Vec<u8>, src: &Vec<u8>, from: usize, to: usize)
    requires from <= to <= src@.len(),
    ensures final(dst)@ == old(dst)@ + src@.subrange(from as int, to as int),
{ dst.put(&src[from..to]); }
/// `assert_eq!(a, b)` on bytes: the comparison is an obligation of the caller
#[verifier::external_body]
pub fn vx_assert_eq_u8(a: u8, b: u8)
    requires a == b,
{ assert_eq!(a, b); }

// ---- AS_PATH bytes (canonical four-octet form): segments = type (1..=4), count, count * 4 bytes ---------------------
pub open spec fn seg_size(b: Seq<u8>) -> int { 2 + 4 * (b[1] as int) }
/// the structure Attribute::decode accepts for AS_PATH (segment types 1..=4, segments fill the value exactly; a
/// segment may be empty)
pub open spec fn aspath_wf(b: Seq<u8>) -> bool
    decreases b.len(),
{
    b.len() == 0 || (b.len() >= 2 && 1 <= b[0] <= 4 && seg_size(b) <= b.len() && aspath_wf(b.subrange(seg_size(b), b.len() as int)))
}
/// hop count: AS_SET = 1, AS_SEQUENCE = its length, confederation segments = 0 (RFC 4271 §9.1.2.2, RFC 5065 §5.3)
pub open spec fn aspath_hops(b: Seq<u8>) -> int
    decreases b.len(),
{
    if b.len() < 2 || seg_size(b) > b.len() { 0 } else {
        (if b[0] == 1 { 1int } else if b[0] == 2 { b[1] as int } else { 0int }) + aspath_hops(b.subrange(seg_size(b), b.len() as int))
    }
}
pub open spec fn be32_at(b: Seq<u8>, o: int) -> u32 { rd_be32(b, o) }
/// occurrences of asn among the first n AS numbers of the segment at the start of b
pub open spec fn seg_count_as(b: Seq<u8>, n: int, asn: u32) -> int
    decreases n,
{
    if n <= 0 { 0 } else { seg_count_as(b, n - 1, asn) + (if be32_at(b, 2 + 4 * (n - 1)) == asn { 1int } else { 0int }) }
}
/// occurrences of asn in the whole path
pub open spec fn aspath_count(b: Seq<u8>, asn: u32) -> int
    decreases b.len(),
{
    if b.len() < 2 || seg_size(b) > b.len() { 0 } else { seg_count_as(b, b[1] as int, asn) + aspath_count(b.subrange(seg_size(b), b.len() as int), asn) }
}


#[verifier::external_type_specification]
#[verifier::external_body]
pub struct ExErrorA(crate::error::Error);
/// `c.read_u8()?` / `c.read_u32::<NetworkEndian>()?` inside a function returning the crate's Error: Err iff the
/// buffer is exhausted
#[verifier::external_body]
pub fn vx_read_u8_or_err<T: AsRef<[u8]>>(c: &mut std::io::Cursor<T>) -> (r: Result<u8, crate::error::Error>)
    ensures
        cur_inner(*final(c)) == cur_inner(*old(c)), cur_data(*final(c)) == cur_data(*old(c)),
        r is Ok <==> cur_pos(*old(c)) + 1 <= cur_data(*old(c)).len(),
        r is Ok ==> cur_pos(*final(c)) == cur_pos(*old(c)) + 1 && r->Ok_0 == cur_data(*old(c))[cur_pos(*old(c)) as int],
{ use byteorder::ReadBytesExt; Ok(c.read_u8()?) }
#[verifier::external_body]
pub fn vx_read_u32_or_err<T: AsRef<[u8]>>(c: &mut std::io::Cursor<T>) -> (r: Result<u32, crate::error::Error>)
    ensures
        cur_inner(*final(c)) == cur_inner(*old(c)), cur_data(*final(c)) == cur_data(*old(c)),
        r is Ok <==> cur_pos(*old(c)) + 4 <= cur_data(*old(c)).len(),
        r is Ok ==> cur_pos(*final(c)) == cur_pos(*old(c)) + 4 && r->Ok_0 == rd_be32(cur_data(*old(c)), cur_pos(*old(c)) as int),
{ use byteorder::{NetworkEndian, ReadBytesExt}; Ok(c.read_u32::<NetworkEndian>()?) }

/// as_path_prepend / as_path_prepend_confed on the bytes: extend a leading segment of the wanted type that has room,
/// else put a new one-AS segment in front
pub open spec fn prepend_bytes(b: Seq<u8>, asn: u32, seg_type: u8) -> Seq<u8> {
    if b.len() != 0 && b[0] == seg_type && b[1] < 255 { seq![b[0], (b[1] + 1) as u8] + be32(asn) + b.subrange(2, b.len() as int) }
    else { seq![seg_type, 1u8] + be32(asn) + b }
}


/// the path without its AS_CONFED_SEQUENCE (3) / AS_CONFED_SET (4) segments, the others kept whole and in order
pub open spec fn strip_confed_bytes(b: Seq<u8>) -> Seq<u8>
    decreases b.len(),
{
    if b.len() < 2 || seg_size(b) > b.len() { Seq::empty() } else {
        (if b[0] == 3 || b[0] == 4 { Seq::<u8>::empty() } else { b.subrange(0, seg_size(b)) }) + strip_confed_bytes(b.subrange(seg_size(b), b.len() as int))
    }
}
/// no confederation segment is left
pub open spec fn no_confed(b: Seq<u8>) -> bool
    decreases b.len(),
{
    b.len() < 2 || seg_size(b) > b.len() || (b[0] != 3 && b[0] != 4 && no_confed(b.subrange(seg_size(b), b.len() as int)))
}

/// some AS number among the first n of the segment at the start of b does not fit two octets
pub open spec fn seg_any_wide(b: Seq<u8>, n: int) -> bool
    decreases n,
{
    n > 0 && (seg_any_wide(b, n - 1) || be32_at(b, 2 + 4 * (n - 1)) > 65535)
}
/// some AS number of the path does not fit two octets (RFC 6793: then an OLD speaker also needs AS4_PATH)
pub open spec fn aspath_any_wide(b: Seq<u8>) -> bool
    decreases b.len(),
{
    !(b.len() < 2 || seg_size(b) > b.len()) && (seg_any_wide(b, b[1] as int) || aspath_any_wide(b.subrange(seg_size(b), b.len() as int)))
}
/// `u32::from_be_bytes(buf[start..start + 4].try_into().unwrap())`
#[verifier::external_body]
pub fn vx_be_u32_at(buf: &Vec<u8>, start: usize) -> (r: u32)
    requires start + 4 <= buf@.len(),
    ensures r == rd_be32(buf@, start as int),
{ u32::from_be_bytes(buf[start..start + 4].try_into().unwrap()) }

// ---- what the byte-level edits mean on the segment structure (lemmas over the contracts of as_path_prepend,
// as_path_prepend_confed and as_path_strip_confed: "prepended exactly once", "after removing confederation segments")
pub proof fn lemma_be32_roundtrip(v: u32)
    ensures rd_be32(be32(v), 0) == v,
{
    let a = (v >> 24) as u8; let b = ((v >> 16) & 0xff) as u8; let c = ((v >> 8) & 0xff) as u8; let d = (v & 0xff) as u8;
    assert(be32(v)[0] == a && be32(v)[1] == b && be32(v)[2] == c && be32(v)[3] == d);
    assert(((((v >> 24) as u8) as u32) << 24 | ((((v >> 16) & 0xff) as u8) as u32) << 16 | ((((v >> 8) & 0xff) as u8) as u32) << 8 | (((v & 0xff) as u8) as u32)) == v) by (bit_vector);
}
/// two byte strings that agree on a segment's AS numbers count the same
pub proof fn lemma_seg_count_shift(x: Seq<u8>, y: Seq<u8>, n: int, d: int, asn: u32)
    requires n >= 0, d >= 0, 2 + 4 * n <= y.len(), 2 + d + 4 * n <= x.len(),
        forall|i: int| 2 <= i < 2 + 4 * n ==> x[i + d] == y[i],
    ensures seg_count_as(y, n, asn) == seg_count_as_off(x, n, d, asn),
    decreases n,
{
    if n > 0 {
        lemma_seg_count_shift(x, y, n - 1, d, asn);
        let o = 2 + 4 * (n - 1);
        assert(x[o + d] == y[o] && x[o + 1 + d] == y[o + 1] && x[o + 2 + d] == y[o + 2] && x[o + 3 + d] == y[o + 3]);
    }
}
/// occurrences among n AS numbers starting at byte 2 + d
pub open spec fn seg_count_as_off(b: Seq<u8>, n: int, d: int, asn: u32) -> int
    decreases n,
{
    if n <= 0 { 0 } else { seg_count_as_off(b, n - 1, d, asn) + (if be32_at(b, 2 + d + 4 * (n - 1)) == asn { 1int } else { 0int }) }
}
/// counting n + 1 numbers from byte 2 = the first one + n numbers from byte 6
pub proof fn lemma_seg_count_first(b: Seq<u8>, n: int, asn: u32)
    requires n >= 0,
    ensures seg_count_as(b, n + 1, asn) == (if be32_at(b, 2) == asn { 1int } else { 0int }) + seg_count_as_off(b, n, 4, asn),
    decreases n,
{
    if n > 0 { lemma_seg_count_first(b, n - 1, asn); }
    else { reveal_with_fuel(seg_count_as, 2); }
}
pub proof fn lemma_prepend_props(b: Seq<u8>, asn: u32, t: u8)
    requires aspath_wf(b), t == 2 || t == 3,
    ensures
        aspath_wf(prepend_bytes(b, asn, t)),
        aspath_count(prepend_bytes(b, asn, t), asn) == aspath_count(b, asn) + 1,
        aspath_hops(prepend_bytes(b, asn, t)) == aspath_hops(b) + (if t == 2 { 1int } else { 0int }),
{
    let p = prepend_bytes(b, asn, t);
    lemma_be32_roundtrip(asn);
    reveal_with_fuel(aspath_wf, 2); reveal_with_fuel(aspath_count, 2); reveal_with_fuel(aspath_hops, 2);
    if b.len() != 0 && b[0] == t && b[1] < 255 {
        let n = b[1] as int;
        assert(p.len() == b.len() + 4);
        assert(p[0] == b[0] && p[1] == b[1] + 1);
        assert(seg_size(p) == seg_size(b) + 4);
        assert(p.subrange(seg_size(p), p.len() as int) =~= b.subrange(seg_size(b), b.len() as int));
        assert(p[2] == be32(asn)[0] && p[3] == be32(asn)[1] && p[4] == be32(asn)[2] && p[5] == be32(asn)[3]);
        assert(be32_at(p, 2) == asn);
        lemma_seg_count_first(p, n, asn);
        assert forall|i: int| 2 <= i < 2 + 4 * n implies p[i + 4] == b[i] by {}
        lemma_seg_count_shift(p, b, n, 4, asn);
    } else {
        assert(p.len() == b.len() + 6);
        assert(p[0] == t && p[1] == 1);
        assert(seg_size(p) == 6);
        assert(p.subrange(6, p.len() as int) =~= b);
        assert(p[2] == be32(asn)[0] && p[3] == be32(asn)[1] && p[4] == be32(asn)[2] && p[5] == be32(asn)[3]);
        assert(be32_at(p, 2) == asn);
        reveal_with_fuel(seg_count_as, 2);
    }
}
pub proof fn lemma_strip_props(b: Seq<u8>)
    requires aspath_wf(b),
    ensures aspath_wf(strip_confed_bytes(b)), no_confed(strip_confed_bytes(b)), aspath_hops(strip_confed_bytes(b)) == aspath_hops(b),
    decreases b.len(),
{
    reveal_with_fuel(aspath_wf, 2); reveal_with_fuel(strip_confed_bytes, 2); reveal_with_fuel(aspath_hops, 2); reveal_with_fuel(no_confed, 2);
    if b.len() != 0 {
        let rest = b.subrange(seg_size(b), b.len() as int);
        lemma_strip_props(rest);
        let s = strip_confed_bytes(b);
        if !(b[0] == 3 || b[0] == 4) {
            let head = b.subrange(0, seg_size(b));
            assert(s =~= head + strip_confed_bytes(rest));
            assert(s[0] == b[0] && s[1] == b[1]);
            assert(s.subrange(seg_size(s), s.len() as int) =~= strip_confed_bytes(rest));
        } else {
            assert(s =~= strip_confed_bytes(rest));
        }
    }
}

} // verus!
