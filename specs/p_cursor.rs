// Prelude fragment: io::Cursor over a byte buffer as (buffer, position); byteorder reads as R11 helpers whose
// `requires` turn the `.unwrap()` of the real code into an obligation at the call site.
use vstd::prelude::*;
use std::io::Cursor;
use byteorder::{NetworkEndian, ReadBytesExt};
verus! {

#[verifier::external_type_specification]
#[verifier::external_body]
#[verifier::reject_recursive_types(T)]
pub struct ExCursor<T>(Cursor<T>);

pub uninterp spec fn cur_pos<T>(c: Cursor<T>) -> u64;
pub uninterp spec fn cur_inner<T>(c: Cursor<T>) -> T;
/// bytes behind the cursor
pub uninterp spec fn cur_data<T>(c: Cursor<T>) -> Seq<u8>;
/// a cursor over `&&[u8]` (the message) / over `&Vec<u8>` (an attribute body) reads that slice / vector
pub broadcast axiom fn axiom_cur_data_slice(c: Cursor<&&[u8]>)
    ensures #[trigger] cur_data(c) == (**cur_inner(c))@,
;
pub broadcast axiom fn axiom_cur_data_vec(c: Cursor<&Vec<u8>>)
    ensures #[trigger] cur_data(c) == (*cur_inner(c))@,
;

pub assume_specification<T>[ Cursor::<T>::new ](inner: T) -> (r: Cursor<T>)
    ensures cur_pos(r) == 0, cur_inner(r) == inner,
;
pub assume_specification<T>[ Cursor::<T>::position ](c: &Cursor<T>) -> (r: u64)
    ensures r == cur_pos(*c),
;
pub assume_specification<T>[ Cursor::<T>::set_position ](c: &mut Cursor<T>, pos: u64)
    ensures cur_pos(*final(c)) == pos, cur_inner(*final(c)) == cur_inner(*old(c)), cur_data(*final(c)) == cur_data(*old(c)),
;
pub assume_specification<T>[ Cursor::<T>::get_ref ](c: &Cursor<T>) -> (r: &T)
    ensures *r == cur_inner(*c),
;

pub open spec fn rd_be16(s: Seq<u8>, o: int) -> u16 { ((s[o] as u16) << 8 | (s[o + 1] as u16)) as u16 }
pub open spec fn rd_be32(s: Seq<u8>, o: int) -> u32 { ((s[o] as u32) << 24 | (s[o + 1] as u32) << 16 | (s[o + 2] as u32) << 8 | (s[o + 3] as u32)) as u32 }

// ---- R11: `c.read_u8().unwrap()` etc. --------------------------------------------------------------
#[verifier::external_body]
pub fn vx_read_u8<T: AsRef<[u8]>>(c: &mut Cursor<T>) -> (r: u8)
    requires cur_pos(*old(c)) + 1 <= cur_data(*old(c)).len(),
    ensures cur_pos(*final(c)) == cur_pos(*old(c)) + 1, cur_inner(*final(c)) == cur_inner(*old(c)),
        cur_data(*final(c)) == cur_data(*old(c)),
        r == cur_data(*old(c))[cur_pos(*old(c)) as int],
{ c.read_u8().unwrap() }

#[verifier::external_body]
pub fn vx_read_u16<T: AsRef<[u8]>>(c: &mut Cursor<T>) -> (r: u16)
    requires cur_pos(*old(c)) + 2 <= cur_data(*old(c)).len(),
    ensures cur_pos(*final(c)) == cur_pos(*old(c)) + 2, cur_inner(*final(c)) == cur_inner(*old(c)),
        cur_data(*final(c)) == cur_data(*old(c)),
        r == rd_be16(cur_data(*old(c)), cur_pos(*old(c)) as int),
{ c.read_u16::<NetworkEndian>().unwrap() }

#[verifier::external_body]
pub fn vx_read_u32<T: AsRef<[u8]>>(c: &mut Cursor<T>) -> (r: u32)
    requires cur_pos(*old(c)) + 4 <= cur_data(*old(c)).len(),
    ensures cur_pos(*final(c)) == cur_pos(*old(c)) + 4, cur_inner(*final(c)) == cur_inner(*old(c)),
        cur_data(*final(c)) == cur_data(*old(c)),
        r == rd_be32(cur_data(*old(c)), cur_pos(*old(c)) as int),
{ c.read_u32::<NetworkEndian>().unwrap() }

/// `c.read_u16::<NetworkEndian>()` whose error is mapped by the caller: Err iff fewer than 2 bytes are left
#[verifier::external_body]
pub fn vx_try_read_u16<T: AsRef<[u8]>>(c: &mut Cursor<T>) -> (r: Result<u16, ()>)
    ensures
        cur_inner(*final(c)) == cur_inner(*old(c)), cur_data(*final(c)) == cur_data(*old(c)),
        r is Ok <==> cur_pos(*old(c)) + 2 <= cur_data(*old(c)).len(),
        r is Ok ==> cur_pos(*final(c)) == cur_pos(*old(c)) + 2 && r->Ok_0 == rd_be16(cur_data(*old(c)), cur_pos(*old(c)) as int),
        r is Err ==> cur_pos(*old(c)) <= cur_pos(*final(c)) <= cur_pos(*old(c)) + 2,
{ c.read_u16::<NetworkEndian>().map_err(|_| ()) }



} // verus!
