// Prelude fragment: std functions vstd lacks + verified replacements for iterator algebra (R12).
use vstd::prelude::*;
use vstd::std_specs::cmp::OrdSpec;
verus! {
// ---- std ---------------------------------------------------------------------------------------

#[verifier::allow(undeclared_external_trait)]
pub assume_specification<T: Ord + core::marker::Destruct>[ std::cmp::min ](a: T, b: T) -> (r: T)
    ensures r == (if b.cmp_spec(&a) == core::cmp::Ordering::Less { b } else { a }),
;

pub assume_specification<T: Default>[ std::mem::take ](v: &mut T) -> (r: T)
    ensures r == *old(v),
;

#[verifier::allow(undeclared_external_trait)]
pub assume_specification<T, F: FnOnce(T) -> bool + core::marker::Destruct>[ Option::<T>::is_some_and ](o: Option<T>, f: F) -> (r: bool)
    requires o is Some ==> call_requires(f, (o->Some_0,)),
    ensures
        o is None ==> !r,
        o is Some ==> call_ensures(f, (o->Some_0,), r),
;

#[verifier::allow(undeclared_external_trait)]
pub assume_specification<T, F: FnOnce(T) -> bool + core::marker::Destruct>[ Option::<T>::is_none_or ](o: Option<T>, f: F) -> (r: bool)
    requires o is Some ==> call_requires(f, (o->Some_0,)),
    ensures
        o is None ==> r,
        o is Some ==> call_ensures(f, (o->Some_0,), r),
;

#[verifier::allow(undeclared_external_trait)]
pub assume_specification<T: core::marker::Destruct>[ bool::then_some ](b: bool, t: T) -> (r: Option<T>)
    ensures r == (if b { Some(t) } else { None }),
;

#[verifier::allow(undeclared_external_trait)]
pub assume_specification<T: core::marker::Destruct, P: FnOnce(&T) -> bool + core::marker::Destruct>[ Option::<T>::filter ](o: Option<T>, p: P) -> (r: Option<T>)
    requires o is Some ==> call_requires(p, (&o->Some_0,)),
    ensures
        o is None ==> r is None,
        o is Some ==> ((call_ensures(p, (&o->Some_0,), true) && r == o) || (call_ensures(p, (&o->Some_0,), false) && r is None)),
;

/// `slice.iter().any(f)` (rewrite R12): verified loop with the complete contract vstd lacks
pub fn vx_any<T, F: Fn(&T) -> bool>(v: &[T], f: F) -> (r: bool)
    requires forall|i: int| 0 <= i < v@.len() ==> call_requires(f, (&v@[i],)),
    ensures
        r ==> exists|i: int| #![trigger v@[i]] 0 <= i < v@.len() && call_ensures(f, (&v@[i],), true),
        !r ==> forall|i: int| #![trigger v@[i]] 0 <= i < v@.len() ==> call_ensures(f, (&v@[i],), false),
{
    let mut k: usize = 0;
    while k < v.len()
        invariant
            0 <= k <= v@.len(),
            forall|i: int| 0 <= i < v@.len() ==> call_requires(f, (&v@[i],)),
            forall|i: int| #![trigger v@[i]] 0 <= i < k ==> call_ensures(f, (&v@[i],), false),
        decreases v@.len() - k,
    {
        if f(&v[k]) {
            return true;
        }
        k += 1;
    }
    false
}

/*@vx:begin PRELUDE::vx_sanity*/
// must FAIL: if it verified, the assumed contracts above would be contradictory
proof fn vx_sanity__vxtwin_prelude()
    ensures false,
{
}
/*@vx:end PRELUDE::vx_sanity*/

} // verus!
