// Prelude fragment: std functions vstd lacks + verified replacements for iterator algebra (R12).
use vstd::prelude::*;
use vstd::std_specs::cmp::OrdSpec;
verus! {
// ---- std ---------------------------------------------------------------------------------------

#[verifier::allow(undeclared_external_trait)]
pub assume_specification<T: Ord + core::marker::Destruct>[ std::cmp::min ](a: T, b: T) -> (r: T)
    ensures r == (if b.cmp_spec(&a) == core::cmp::Ordering::Less { b } else { a }),
;

pub assume_specification<T: Default>[ std::mem::take ](v: &mut T) -> (r: T)
    ensures r == *old(v),
;

#[verifier::allow(undeclared_external_trait)]
pub assume_specification<T, F: FnOnce(T) -> bool + core::marker::Destruct>[ Option::<T>::is_some_and ](o: Option<T>, f: F) -> (r: bool)
    requires o is Some ==> call_requires(f, (o->Some_0,)),
    ensures
        o is None ==> !r,
        o is Some ==> call_ensures(f, (o->Some_0,), r),
;

#[verifier::allow(undeclared_external_trait)]
pub assume_specification<T, F: FnOnce(T) -> bool + core::marker::Destruct>[ Option::<T>::is_none_or ](o: Option<T>, f: F) -> (r: bool)
    requires o is Some ==> call_requires(f, (o->Some_0,)),
    ensures
        o is None ==> r,
        o is Some ==> call_ensures(f, (o->Some_0,), r),
;

#[verifier::allow(undeclared_external_trait)]
pub assume_specification<T: core::marker::Destruct>[ bool::then_some ](b: bool, t: T) -> (r: Option<T>)
    ensures r == (if b { Some(t) } else { None }),
;

#[verifier::allow(undeclared_external_trait)]
pub assume_specification<T: core::marker::Destruct, P: FnOnce(&T) -> bool + core::marker::Destruct>[ Option::<T>::filter ](o: Option<T>, p: P) -> (r: Option<T>)
    requires o is Some ==> call_requires(p, (&o->Some_0,)),
    ensures
        o is None ==> r is None,
        o is Some ==> ((call_ensures(p, (&o->Some_0,), true) && r == o) || (call_ensures(p, (&o->Some_0,), false) && r is None)),
;

/// `slice.iter().any(f)` (rewrite R12): verified loop with the complete contract vstd lacks
pub fn vx_any<T, F: Fn(&T) -> bool>(v: &[T], f: F) -> (r: bool)
    requires forall|i: int| 0 <= i < v@.len() ==> call_requires(f, (&v@[i],)),
    ensures
        r ==> exists|i: int| #![trigger v@[i]] 0 <= i < v@.len() && call_ensures(f, (&v@[i],), true),
        !r ==> forall|i: int| #![trigger v@[i]] 0 <= i < v@.len() ==> call_ensures(f, (&v@[i],), false),
{
    let mut k: usize = 0;
    while k < v.len()
        invariant
            0 <= k <= v@.len(),
            forall|i: int| 0 <= i < v@.len() ==> call_requires(f, (&v@[i],)),
            forall|i: int| #![trigger v@[i]] 0 <= i < k ==> call_ensures(f, (&v@[i],), false),
        decreases v@.len() - k,
    {
        if f(&v[k]) {
            return true;
        }
        k += 1;
    }
    false
}

/// `slice.iter().all(f)`: verified loop with a complete contract
pub fn vx_all<T, F: Fn(&T) -> bool>(v: &[T], f: F) -> (r: bool)
    requires forall|i: int| 0 <= i < v@.len() ==> call_requires(f, (&v@[i],)),
    ensures
        r ==> forall|i: int| #![trigger v@[i]] 0 <= i < v@.len() ==> call_ensures(f, (&v@[i],), true),
        !r ==> exists|i: int| #![trigger v@[i]] 0 <= i < v@.len() && call_ensures(f, (&v@[i],), false),
{
    let mut k: usize = 0;
    while k < v.len()
        invariant
            0 <= k <= v@.len(),
            forall|i: int| 0 <= i < v@.len() ==> call_requires(f, (&v@[i],)),
            forall|i: int| #![trigger v@[i]] 0 <= i < k ==> call_ensures(f, (&v@[i],), true),
        decreases v@.len() - k,
    {
        if !f(&v[k]) {
            return false;
        }
        k += 1;
    }
    true
}

/// `slice.iter()` as a value with the std method names (rewrite R11 of the receiver only: `X.iter()` -> `VxIter(&X)` for a Vec X),
/// so that the call in the code keeps choosing the method — `.all(f)` and `.any(f)` each get their own (verified) contract
pub struct VxIter<'a, T>(pub &'a Vec<T>);
impl<'a, T> VxIter<'a, T> {
    pub fn all<F: Fn(&T) -> bool>(self, f: F) -> (r: bool)
        requires forall|i: int| 0 <= i < self.0@.len() ==> call_requires(f, (&self.0@[i],)),
        ensures
            r ==> forall|i: int| #![trigger self.0@[i]] 0 <= i < self.0@.len() ==> call_ensures(f, (&self.0@[i],), true),
            !r ==> exists|i: int| #![trigger self.0@[i]] 0 <= i < self.0@.len() && call_ensures(f, (&self.0@[i],), false),
    { vx_all(self.0.as_slice(), f) }
    pub fn any<F: Fn(&T) -> bool>(self, f: F) -> (r: bool)
        requires forall|i: int| 0 <= i < self.0@.len() ==> call_requires(f, (&self.0@[i],)),
        ensures
            r ==> exists|i: int| #![trigger self.0@[i]] 0 <= i < self.0@.len() && call_ensures(f, (&self.0@[i],), true),
            !r ==> forall|i: int| #![trigger self.0@[i]] 0 <= i < self.0@.len() ==> call_ensures(f, (&self.0@[i],), false),
    { vx_any(self.0.as_slice(), f) }
}

/// the same for a slice receiver
pub struct VxIterS<'a, T>(pub &'a [T]);
impl<'a, T> VxIterS<'a, T> {
    pub fn all<F: Fn(&T) -> bool>(self, f: F) -> (r: bool)
        requires forall|i: int| 0 <= i < self.0@.len() ==> call_requires(f, (&self.0@[i],)),
        ensures
            r ==> forall|i: int| #![trigger self.0@[i]] 0 <= i < self.0@.len() ==> call_ensures(f, (&self.0@[i],), true),
            !r ==> exists|i: int| #![trigger self.0@[i]] 0 <= i < self.0@.len() && call_ensures(f, (&self.0@[i],), false),
    { vx_all(self.0, f) }
    pub fn any<F: Fn(&T) -> bool>(self, f: F) -> (r: bool)
        requires forall|i: int| 0 <= i < self.0@.len() ==> call_requires(f, (&self.0@[i],)),
        ensures
            r ==> exists|i: int| #![trigger self.0@[i]] 0 <= i < self.0@.len() && call_ensures(f, (&self.0@[i],), true),
            !r ==> forall|i: int| #![trigger self.0@[i]] 0 <= i < self.0@.len() ==> call_ensures(f, (&self.0@[i],), false),
    { vx_any(self.0, f) }
}

/// R12: `m.iter().filter(p).map(|(k, v)| (*k, *v)).collect()` — the sub-map of the entries satisfying p (assumed
/// std iterator semantics; the predicate closure stays verbatim at the call site and is verified there)
#[verifier::external_body]
pub fn vx_hashmap_filter_copy<K: Copy + Eq + core::hash::Hash, V: Copy, S: core::hash::BuildHasher + Default, F: Fn(&(&K, &V)) -> bool>(
    m: &std::collections::HashMap<K, V, S>, f: F) -> (r: std::collections::HashMap<K, V, S>)
    requires forall|k: &K, v: &V| call_requires(f, (&(k, v),)),
    ensures
        forall|k: K| #[trigger] r@.contains_key(k) ==> (m@.contains_key(k) && r@[k] == m@[k] && call_ensures(f, (&(&k, &m@[k]),), true)),
        forall|k: K| (#[trigger] m@.contains_key(k) && !r@.contains_key(k)) ==> call_ensures(f, (&(&k, &m@[k]),), false),
{
    m.iter().filter(|p| f(p)).map(|(k, v)| (*k, *v)).collect()
}

/*@vx:begin PRELUDE::vx_sanity*/
// must FAIL: if it verified, the assumed contracts above would be contradictory
proof fn vx_sanity__vxtwin_prelude()
    ensures false,
{
}
/*@vx:end PRELUDE::vx_sanity*/

} // verus!
