// Prelude fragment for unit packet_parse: the path-attribute block of an UPDATE as a walk over attribute headers,
// written from RFC 4271 §4.3 (flags, type, one- or two-octet length, value) and the property text of C05 — not from the
// loop of parse_message.  `b` is the whole message, positions are offsets into it.
use vstd::prelude::*;
use crate::bgp::*;
use super::*;
verus! {

/// Extended Length bit of the attribute whose header starts at p
pub open spec fn aw_ext(b: Seq<u8>, p: int) -> bool { b[p] & 0x10u8 != 0 }
/// first octet of the attribute value
pub open spec fn aw_body(b: Seq<u8>, p: int) -> int { if aw_ext(b, p) { p + 4 } else { p + 3 } }
pub open spec fn aw_len(b: Seq<u8>, p: int) -> int { if aw_ext(b, p) { rd_be16(b, p + 2) as int } else { b[p + 2] as int } }
/// first octet behind the attribute
pub open spec fn aw_next(b: Seq<u8>, p: int) -> int { aw_body(b, p) + aw_len(b, p) }
pub open spec fn aw_code(b: Seq<u8>, p: int) -> u8 { b[p + 1] }
/// the attribute whose header starts at p lies inside the block that ends at `end`
pub open spec fn aw_fits(b: Seq<u8>, p: int, end: int) -> bool { p + 2 <= end && aw_body(b, p) <= end && aw_next(b, p) <= end }

/// header positions of the attributes of the block [p, end), up to the first one that does not fit
pub open spec fn aw_walk(b: Seq<u8>, p: int, end: int) -> Seq<int>
    decreases end - p,
{
    if p < end && aw_fits(b, p, end) { seq![p] + aw_walk(b, aw_next(b, p), end) } else { Seq::<int>::empty() }
}
/// where that walk stops: `end` iff whole attributes tile the block (anything else is a truncated attribute block)
pub open spec fn aw_stop(b: Seq<u8>, p: int, end: int) -> int
    decreases end - p,
{
    if p < end && aw_fits(b, p, end) { aw_stop(b, aw_next(b, p), end) } else { p }
}

// ---- the UPDATE frame (RFC 4271 §4.3): header 19, withdrawn length 2, withdrawn routes, attribute length 2, attributes, NLRI
pub open spec fn upd_wl(b: Seq<u8>) -> int { rd_be16(b, 19) as int }
pub open spec fn upd_al(b: Seq<u8>) -> int { rd_be16(b, 21 + upd_wl(b)) as int }
pub open spec fn upd_start(b: Seq<u8>) -> int { 23 + upd_wl(b) }
pub open spec fn upd_end(b: Seq<u8>) -> int { upd_start(b) + upd_al(b) }
/// the two length fields stay inside the message: withdrawn routes, attributes and NLRI can be located
pub open spec fn upd_frame_ok(b: Seq<u8>) -> bool { b.len() >= 23 && 23 + upd_wl(b) <= b.len() && 23 + upd_wl(b) + upd_al(b) <= b.len() }
pub open spec fn upd_walk(b: Seq<u8>) -> Seq<int> { aw_walk(b, upd_start(b), upd_end(b)) }

/// outcome of Attribute::decode as a function of what it is given (assumed: it reads nothing but the `len` value octets)
pub uninterp spec fn attr_decodes(code: u8, flags: u8, body: Seq<u8>, two_byte_as: bool) -> bool;
/// outcome of PeerCodec::decode_nlri_list as a function of its arguments (it is an associated function without state)
pub uninterp spec fn nlri_list_ok(family: Family, addpath_rx: bool, is_reach: bool, data: Seq<u8>) -> bool;
/// ... and the routes it returns when it accepts
pub uninterp spec fn nlri_list_val(family: Family, addpath_rx: bool, is_reach: bool, data: Seq<u8>) -> Seq<PathNlri>;

/// the k-th attribute of the walk is the first one with its type code (RFC 7606 §3.g: later ones are ignored)
pub open spec fn aw_first(b: Seq<u8>, w: Seq<int>, k: int) -> bool {
    forall|j: int| 0 <= j < k ==> aw_code(b, #[trigger] w[j]) != aw_code(b, w[k])
}
/// C05, from the property text: the attribute at p "is malformed, has wrong flags, is an unrecognised well-known
/// attribute" — except that a malformed AS4_PATH / AS4_AGGREGATOR may simply be dropped
pub open spec fn aw_fault(b: Seq<u8>, p: int, two_byte_as: bool) -> bool {
    let code = aw_code(b, p);
    let flags = b[p];
    match spec_canonical(code) {
        Some(f) => (flags ^ f) & 0xC0u8 != 0
            || (code != 17u8 && code != 18u8 && !attr_decodes(code, flags, b.subrange(aw_body(b, p), aw_next(b, p)), two_byte_as)),
        None => flags & 0x80u8 == 0,
    }
}
pub open spec fn recorded(errs: Seq<AttributeError>, code: u8, flags: u8) -> bool {
    exists|i: int| 0 <= i < errs.len() && (#[trigger] errs[i]).attr_code == code && errs[i].attr_flags == flags
}
pub open spec fn aw_has_code(b: Seq<u8>, w: Seq<int>, code: u8) -> bool {
    exists|k: int| 0 <= k < w.len() && aw_code(b, #[trigger] w[k]) == code
}
/// MP_REACH_NLRI or MP_UNREACH_NLRI appears twice (RFC 7606 §3.g: session reset)
pub open spec fn aw_dup_mp(b: Seq<u8>, w: Seq<int>) -> bool {
    exists|k: int| 0 <= k < w.len() && (aw_code(b, #[trigger] w[k]) == 14u8 || aw_code(b, w[k]) == 15u8) && !aw_first(b, w, k)
}

/// one step of the walk
pub proof fn lemma_aw_step(b: Seq<u8>, p: int, end: int)
    requires p < end, aw_fits(b, p, end),
    ensures
        aw_walk(b, p, end) =~= seq![p] + aw_walk(b, aw_next(b, p), end),
        aw_stop(b, p, end) == aw_stop(b, aw_next(b, p), end),
{
}
/// the walk is over
pub proof fn lemma_aw_done(b: Seq<u8>, p: int, end: int)
    requires !(p < end && aw_fits(b, p, end)),
    ensures aw_walk(b, p, end) =~= Seq::<int>::empty(), aw_stop(b, p, end) == p,
{
}
/// appending the next header position to the visited ones
pub proof fn lemma_hs_push(b: Seq<u8>, hs: Seq<int>, p: int)
    ensures
        forall|x: u8| #[trigger] aw_has_code(b, hs, x) ==> aw_has_code(b, hs.push(p), x),
        aw_has_code(b, hs.push(p), aw_code(b, p)),
        forall|k: int| 0 <= k < hs.len() ==> aw_first(b, hs.push(p), k) == aw_first(b, hs, k),
        aw_has_code(b, hs, aw_code(b, p)) ==> !aw_first(b, hs.push(p), hs.len() as int),
{
    let h2 = hs.push(p);
    assert forall|x: u8| aw_has_code(b, hs, x) implies aw_has_code(b, h2, x) by {
        let k = choose|k: int| 0 <= k < hs.len() && aw_code(b, #[trigger] hs[k]) == x;
        assert(h2[k] == hs[k]);
    }
    assert(h2[hs.len() as int] == p);
    assert forall|k: int| 0 <= k < hs.len() implies aw_first(b, h2, k) == aw_first(b, hs, k) by {
        assert(h2[k] == hs[k]);
        if aw_first(b, h2, k) {
            assert forall|j: int| 0 <= j < k implies aw_code(b, #[trigger] hs[j]) != aw_code(b, hs[k]) by { assert(h2[j] == hs[j]); }
        }
        if aw_first(b, hs, k) {
            assert forall|j: int| 0 <= j < k implies aw_code(b, #[trigger] h2[j]) != aw_code(b, h2[k]) by { assert(h2[j] == hs[j]); }
        }
    }
    if aw_has_code(b, hs, aw_code(b, p)) {
        let k = choose|k: int| 0 <= k < hs.len() && aw_code(b, #[trigger] hs[k]) == aw_code(b, p);
        assert(h2[k] == hs[k]);
    }
}
/// an error once recorded stays recorded
pub proof fn lemma_recorded_push(errs: Seq<AttributeError>, e: AttributeError, code: u8, flags: u8)
    requires recorded(errs, code, flags),
    ensures recorded(errs.push(e), code, flags),
{
    let i = choose|i: int| 0 <= i < errs.len() && (#[trigger] errs[i]).attr_code == code && errs[i].attr_flags == flags;
    assert(errs.push(e)[i] == errs[i]);
}
pub proof fn lemma_recorded_new(errs: Seq<AttributeError>, e: AttributeError)
    ensures recorded(errs.push(e), e.attr_code, e.attr_flags),
{
    assert(errs.push(e)[errs.len() as int] == e);
}

} // verus!
