// Prelude fragment for unit daemon_mrt_conv: the types adj_rib_in_to_mrt moves from an Adj-RIB-In change into an MRT record.
use vstd::prelude::*;
use rustybgp_packet::{self as packet, bgp, mrt};
use rustybgp_table as table;
use std::net::IpAddr;
use super::*;
verus! {

#[verifier::external_type_specification]
pub struct ExUpdateT(bgp::Update);
#[verifier::external_type_specification]
#[verifier::external_body]
pub struct ExPathNlriT(bgp::PathNlri);
#[verifier::external_type_specification]
#[verifier::external_body]
pub struct ExNexthopT(bgp::Nexthop);
#[verifier::external_type_specification]
#[verifier::external_body]
pub struct ExAttributeT(bgp::Attribute);
#[verifier::external_type_specification]
#[verifier::external_body]
pub struct ExSourceT(table::Source);
#[verifier::external_type_specification]
#[verifier::external_body]
pub struct ExIpAddrT(IpAddr);
#[verifier::external_type_specification]
#[verifier::external_body]
pub struct ExMpHeaderT(mrt::MpHeader);
#[verifier::external_type_specification]
pub struct ExMrtMessageT(mrt::Message);

/// mrt::MpHeader::new as the constructor it is (its fields are private to the packet crate)
pub uninterp spec fn mp_header(remote_asn: u32, local_asn: u32, ifidx: u16, remote: IpAddr, local: IpAddr, asn4: bool) -> mrt::MpHeader;
pub assume_specification[ mrt::MpHeader::new ](remote_asn: u32, local_asn: u32, interface_idx: u16, remote_addr: IpAddr, local_addr: IpAddr, is_asn4: bool) -> (r: mrt::MpHeader)
    ensures r == mp_header(remote_asn, local_asn, interface_idx, remote_addr, local_addr, is_asn4),
;

// table::Source holds atomics: its plain fields are read through accessor shims (R13)
pub uninterp spec fn srcm_remote_asn(s: table::Source) -> u32;
pub uninterp spec fn srcm_local_asn(s: table::Source) -> u32;
pub uninterp spec fn srcm_remote_addr(s: table::Source) -> IpAddr;
pub uninterp spec fn srcm_local_addr(s: table::Source) -> IpAddr;
#[verifier::external_body]
pub fn vx_srcm_remote_asn(s: &table::Source) -> (r: u32) ensures r == srcm_remote_asn(*s), { s.remote_asn }
#[verifier::external_body]
pub fn vx_srcm_local_asn(s: &table::Source) -> (r: u32) ensures r == srcm_local_asn(*s), { s.local_asn }
#[verifier::external_body]
pub fn vx_srcm_remote_addr(s: &table::Source) -> (r: IpAddr) ensures r == srcm_remote_addr(*s), { s.remote_addr }
#[verifier::external_body]
pub fn vx_srcm_local_addr(s: &table::Source) -> (r: IpAddr) ensures r == srcm_local_addr(*s), { s.local_addr }

/// `x.clone()` of the routes / attribute list moved into the record: ASSUMED to return an equal value
#[verifier::external_body]
pub fn vx_clone_m<T: Clone>(x: &T) -> (r: T)
    ensures r == *x,
{ x.clone() }

/// `vec![x]`
pub fn vx_vec1<T>(x: T) -> (r: Vec<T>)
    ensures r@ == seq![x],
{
    let mut v = Vec::new();
    v.push(x);
    v
}

} // verus!
