// Prelude fragment for units packet_bmp / packet_mrt: addresses as octet sequences, the embedded BGP encoder as an
// uninterpreted function of codec state and message (C04 owns its definition; not under contract here).
use vstd::prelude::*;
use std::net::{IpAddr, Ipv4Addr, Ipv6Addr};
use bytes::BytesMut;
use crate::bgp;
use super::*;
verus! {

#[verifier::external_type_specification]
pub struct ExIpAddrB(IpAddr);
#[verifier::external_type_specification]
#[verifier::external_body]
pub struct ExIpv4AddrB(Ipv4Addr);
#[verifier::external_type_specification]
#[verifier::external_body]
pub struct ExIpv6AddrB(Ipv6Addr);
#[verifier::external_type_specification]
#[verifier::external_body]
pub struct ExErrorB(crate::error::Error);
#[verifier::external_type_specification]
#[verifier::external_body]
pub struct ExPeerCodecB(bgp::PeerCodec);

pub uninterp spec fn ip4_octets(a: Ipv4Addr) -> Seq<u8>;
pub uninterp spec fn ip6_octets(a: Ipv6Addr) -> Seq<u8>;
pub broadcast axiom fn axiom_ip4_octets_len(a: Ipv4Addr)
    ensures #[trigger] ip4_octets(a).len() == 4,
;
pub broadcast axiom fn axiom_ip6_octets_len(a: Ipv6Addr)
    ensures #[trigger] ip6_octets(a).len() == 16,
;
pub assume_specification[ Ipv4Addr::octets ](a: &Ipv4Addr) -> (r: [u8; 4])
    ensures r@ == ip4_octets(*a),
;
pub assume_specification[ Ipv6Addr::octets ](a: &Ipv6Addr) -> (r: [u8; 16])
    ensures r@ == ip6_octets(*a),
;
pub assume_specification[ IpAddr::is_ipv6 ](a: &IpAddr) -> (r: bool)
    ensures r == (*a is V6),
;


/// the wire bytes PeerCodec::encode_to produces for a message under the codec's per-family add-path state (one or more
/// BGP frames); uninterpreted here
pub uninterp spec fn bgp_wire(c: bgp::PeerCodec, m: bgp::Message) -> Seq<u8>;
/// the codec with the transmit add-path flag of one family set (PeerCodec::set_family)
pub uninterp spec fn codec_with_addpath(c: bgp::PeerCodec, f: bgp::Family, addpath: bool) -> bgp::PeerCodec;
pub uninterp spec fn fresh_codec() -> bgp::PeerCodec;
pub assume_specification[ bgp::PeerCodec::new ]() -> (r: bgp::PeerCodec)
    ensures r == fresh_codec(),
;
/// R11 helper for `codec.encode_to(msg, &mut buf).unwrap()`: assumed to return Ok (do_encode has no reachable error
/// return), to append its wire bytes and to leave the codec's negotiated state alone
#[verifier::external_body]
pub fn vx_encode_to(codec: &mut bgp::PeerCodec, msg: &bgp::Message, buf: &mut BytesMut)
    ensures
        (*final(buf)).bytes() == (*old(buf)).bytes() + bgp_wire(*old(codec), *msg),
        *final(codec) == *old(codec),
{ codec.encode_to(msg, buf).unwrap(); }
/// PeerCodec's family table read-only: has_family (uninterpreted observer of the codec state)
pub uninterp spec fn codec_has_family(c: bgp::PeerCodec, f: bgp::Family) -> bool;
pub assume_specification[ bgp::PeerCodec::has_family ](c: &bgp::PeerCodec, f: bgp::Family) -> (r: bool)
    ensures r == codec_has_family(*c, f),
;
/// R11 helper for `codec.set_family(family, FamilyState { addpath_tx, ..Default::default() })`
#[verifier::external_body]
pub fn vx_set_addpath_tx(codec: &mut bgp::PeerCodec, family: bgp::Family, addpath: bool)
    ensures *final(codec) == codec_with_addpath(*old(codec), family, addpath),
{ codec.set_family(family, bgp::FamilyState { addpath_tx: addpath, ..Default::default() }); }


/// `Family::IPV4.afi()` / `Family::IPV6.afi()` (IANA address family numbers 1 and 2: Family::new(AFI_IP = 1 / AFI_IP6 = 2, ..) >> 16; assumed)
#[verifier::external_body]
pub fn vx_afi_ipv4() -> (r: u16) ensures r == 1, { bgp::Family::IPV4.afi() }
#[verifier::external_body]
pub fn vx_afi_ipv6() -> (r: u16) ensures r == 2, { bgp::Family::IPV6.afi() }


/// seconds since the Unix epoch, truncated to 32 bits (any value)
#[verifier::external_body]
pub fn vx_unix_secs() -> (r: u32)
{ std::time::SystemTime::now().duration_since(std::time::SystemTime::UNIX_EPOCH).unwrap().as_secs() as u32 }
/// the wire encoding of one path attribute (Attribute::encode_wire; C04 owns its definition)
pub uninterp spec fn attr_wire(a: bgp::Attribute) -> Seq<u8>;
#[verifier::external_body]
pub fn vx_attr_encode_wire(a: &bgp::Attribute, dst: &mut BytesMut)
    ensures (*final(dst)).bytes() == (*old(dst)).bytes() + attr_wire(*a),
{ a.encode_wire(dst); }
/// the wire encoding of one NLRI (Nlri::encode)
pub uninterp spec fn nlri_wire(n: bgp::Nlri) -> Seq<u8>;
#[verifier::external_type_specification]
#[verifier::external_body]
pub struct ExNlriB(bgp::Nlri);
#[verifier::external_body]
pub fn vx_nlri_encode(n: &bgp::Nlri, dst: &mut BytesMut)
    ensures (*final(dst)).bytes() == (*old(dst)).bytes() + nlri_wire(*n),
{ n.encode(dst).unwrap(); }
/// Nexthop::to_bytes: 4, 16 or 32 octets
pub uninterp spec fn nh_octets(n: bgp::Nexthop) -> Seq<u8>;
pub assume_specification[ bgp::Nexthop::to_bytes ](n: &bgp::Nexthop) -> (r: Vec<u8>)
    ensures r@ == nh_octets(*n), r@.len() == 4 || r@.len() == 16 || r@.len() == 32,
;

} // verus!
