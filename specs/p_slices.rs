// Prelude fragment: range indexing of slices (rewrite R18) and byteorder reads from slices as helpers whose `requires`
// is the bounds check the real expression performs (a violated one is a panic in the real code).
use vstd::prelude::*;
verus! {

#[verifier::external_body]
pub fn vx_slice<T>(s: &[T], a: usize, b: usize) -> (r: &[T])
    requires a <= b <= s@.len(),
    ensures r@ == s@.subrange(a as int, b as int),
{ &s[a..b] }
#[verifier::external_body]
pub fn vx_slice_to<T>(s: &[T], b: usize) -> (r: &[T])
    requires b <= s@.len(),
    ensures r@ == s@.subrange(0, b as int),
{ &s[..b] }
#[verifier::external_body]
pub fn vx_slice_from<T>(s: &[T], a: usize) -> (r: &[T])
    requires a <= s@.len(),
    ensures r@ == s@.subrange(a as int, s@.len() as int),
{ &s[a..] }
/// `dst[..n].copy_from_slice(&src[..n])` / `dst[..n].copy_from_slice(src)` with src.len() == n
#[verifier::external_body]
pub fn vx_copy_prefix(dst: &mut [u8], src: &[u8], n: usize)
    requires n <= old(dst)@.len(), n == src@.len(),
    ensures final(dst)@.len() == old(dst)@.len(),
{ dst[..n].copy_from_slice(src); }
/// `NetworkEndian::read_u16(s)` / `read_u32(s)` (byteorder::ByteOrder): panic unless the slice is long enough
#[verifier::external_body]
pub fn vx_be_u16(s: &[u8]) -> (r: u16)
    requires s@.len() >= 2,
{ use byteorder::{ByteOrder, NetworkEndian}; NetworkEndian::read_u16(s) }
#[verifier::external_body]
pub fn vx_be_u32(s: &[u8]) -> (r: u32)
    requires s@.len() >= 4,
{ use byteorder::{ByteOrder, NetworkEndian}; NetworkEndian::read_u32(s) }

} // verus!
