// Prelude fragment for units in the packet crate: types declared outside verus! get transparent or opaque mirrors.
use vstd::prelude::*;
use crate::bgp::*;
use std::sync::Arc;
verus! {

#[verifier::external_type_specification]
#[verifier::external_body]
pub struct ExFamily(Family);

#[verifier::external_type_specification]
#[verifier::external_body]
pub struct ExAttribute(Attribute);

#[verifier::external_type_specification]
#[verifier::external_body]
pub struct ExNexthop(Nexthop);

#[verifier::external_type_specification]
#[verifier::external_body]
pub struct ExPathNlri(PathNlri);

#[verifier::external_type_specification]
pub struct ExReachNlri(ReachNlri);

#[verifier::external_type_specification]
pub struct ExUnreachNlri(UnreachNlri);

#[verifier::external_type_specification]
pub struct ExAttributeError(AttributeError);

#[verifier::external_type_specification]
pub struct ExParsedUpdate(ParsedUpdate);

#[verifier::external_type_specification]
pub struct ExOpen(Open);

#[verifier::external_type_specification]
#[verifier::external_body]
pub struct ExHoldTime(HoldTime);

#[verifier::external_type_specification]
pub struct ExCapability(Capability);

#[verifier::external_type_specification]
pub struct ExNotification(Notification);

#[verifier::external_type_specification]
pub struct ExParsedMessage(ParsedMessage);

#[verifier::external_type_specification]
#[verifier::external_body]
pub struct ExFnvHasher(fnv::FnvHasher);

#[verifier::external_type_specification]
#[verifier::external_body]
#[verifier::reject_recursive_types_in_ground_variants(H)]
pub struct ExBuildHasherDefault<H>(core::hash::BuildHasherDefault<H>);

pub broadcast axiom fn axiom_family_obeys_key_model()
    ensures #[trigger] vstd::std_specs::hash::obeys_key_model::<Family>(),
;
pub broadcast axiom fn axiom_fnv_builds_valid_hashers()
    ensures #[trigger] vstd::std_specs::hash::builds_valid_hashers::<core::hash::BuildHasherDefault<fnv::FnvHasher>>(),
;

#[verifier::external_type_specification]
pub struct ExUpdate(Update);

#[verifier::external_type_specification]
pub struct ExMessage(Message);

pub uninterp spec fn attr_code(a: Attribute) -> u8;
pub assume_specification[ Attribute::code ](a: &Attribute) -> (r: u8)
    ensures r == attr_code(*a),
;
pub assume_specification[ <Family as PartialEq>::eq ](a: &Family, b: &Family) -> (r: bool)
    ensures r == (*a == *b),
;

/// RFC 4271 / 4456 / 4760 / 1997 / 4360 / 6793 / 7311 / 8092 / 8669 / 9552 / 9012 attribute flag table
/// (optional = 0x80, transitive = 0x40) as the packet crate states it; `Attribute::canonical_flags` is proved equal
/// to this table over all 256 codes by the Kani harness `c05_canonical_flags_table` (complete).
pub open spec fn spec_canonical(code: u8) -> Option<u8> {
    if code == 1 || code == 2 || code == 3 || code == 5 || code == 6 { Some(0x40u8) }
    else if code == 4 || code == 9 || code == 10 || code == 14 || code == 15 || code == 26 || code == 29 { Some(0x80u8) }
    else if code == 7 || code == 8 || code == 16 || code == 17 || code == 18 || code == 32 || code == 40 || code == 23 { Some(0xC0u8) }
    else { None }
}
pub assume_specification[ Attribute::canonical_flags ](code: u8) -> (r: Option<u8>)
    ensures r == spec_canonical(code),
;

/// R11 helper: `a.into_iter().chain(b)` on two Options (std iterator algebra): the present values, a first
#[verifier::external_body]
pub fn vx_chain_opts<T>(a: Option<T>, b: Option<T>) -> (r: Vec<T>)
    ensures
        r@ == (match a { Some(x) => seq![x], None => Seq::<T>::empty() }) + (match b { Some(y) => seq![y], None => Seq::<T>::empty() }),
{
    a.into_iter().chain(b).collect()
}

/// R12: `v.into_iter().filter(p).collect::<Vec<_>>()`; the predicate closure stays verbatim at the call site
/// and is verified there; assumed: std keeps exactly the elements for which the predicate returned true.
#[verifier::external_body]
pub fn vx_filter_collect<T, F: Fn(&T) -> bool>(v: Vec<T>, f: F) -> (r: Vec<T>)
    requires forall|x: &T| call_requires(f, (x,)),
    ensures
        forall|i: int| #![trigger r@[i]] 0 <= i < r@.len() ==> v@.contains(r@[i]) && call_ensures(f, (&r@[i],), true),
        forall|i: int| #![trigger v@[i]] 0 <= i < v@.len() ==> (r@.contains(v@[i]) || call_ensures(f, (&v@[i],), false)),
{
    v.into_iter().filter(|x| f(x)).collect()
}

/*@vx:begin PRELUDE::vx_sanity*/
// must FAIL: if it verified, the assumed contracts above would be contradictory
proof fn vx_sanity__vxtwin_prelude()
    ensures false,
{
}
/*@vx:end PRELUDE::vx_sanity*/

pub open spec fn flag_opt(f: u8) -> bool { f & 0x80u8 != 0 }
pub open spec fn flag_trans(f: u8) -> bool { f & 0x40u8 != 0 }
/// C05, from the property text: an attribute error may be handled by dropping just that attribute only for an optional
/// non-transitive attribute (by the attribute's definition; by the received flags only when the code is unknown),
/// AS4_PATH or AS4_AGGREGATOR; every other error makes the announced prefixes withdrawn.
pub open spec fn discardable(e: AttributeError) -> bool {
    e.attr_code == 17u8 || e.attr_code == 18u8 || {
        let f = match spec_canonical(e.attr_code) { Some(f) => f, None => e.attr_flags };
        flag_opt(f) && !flag_trans(f)
    }
}
pub open spec fn faulty(errs: Seq<AttributeError>) -> bool {
    exists|i: int| 0 <= i < errs.len() && !discardable(#[trigger] errs[i])
}

} // verus!
