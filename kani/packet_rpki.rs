// Kani harnesses for packet/src/rpki.rs (C03: RTR decoder). Compiled inside the real crate under cfg(kani).
use super::*;
use bytes::BytesMut;
use tokio_util::codec::Decoder;

fn be32(b: &[u8], o: usize) -> usize {
    (((b[o] as u32) << 24)
        | ((b[o + 1] as u32) << 16)
        | ((b[o + 2] as u32) << 8)
        | (b[o + 3] as u32)) as usize
}

fn stub_format(_args: core::fmt::Arguments<'_>) -> String {
    String::new()
}

/// Contract of `Message::frame_length` (loop-free, fully symbolic: complete).
///   Ok(Some(n))  ==>  8 <= n <= buf.len() and n is the header's length field   (progress: n > 0; split_to(n) in bounds)
///   Ok(None)     ==>  no complete PDU is buffered (header incomplete, or fewer bytes than the length field says)
///   Err          ==>  the length field is below the header size (can never be satisfied)
#[kani::proof]
#[kani::stub(alloc::fmt::format, stub_format)]
fn rtr_frame_length_contract() {
    const N: usize = 64;
    let data: [u8; N] = kani::any();
    let len: usize = kani::any();
    kani::assume(len <= N);
    let buf = &data[..len];
    match Message::frame_length(buf) {
        Ok(Some(n)) => {
            assert!(n >= 8, "C03.rtr.frame_consumes_at_least_header");
            assert!(n <= len, "C03.rtr.frame_within_buffer");
            assert!(n == be32(&data, 4), "C03.rtr.frame_is_length_field");
            kani::cover!(true, "complete frame");
        }
        Ok(None) => {
            assert!(
                len < 8 || len < be32(&data, 4),
                "C03.rtr.more_bytes_only_if_incomplete"
            );
            assert!(
                len < 8 || be32(&data, 4) >= 8,
                "C03.rtr.short_length_field_rejected"
            );
            kani::cover!(len >= 8, "incomplete body");
        }
        Err(e) => {
            assert!(
                len >= 8 && be32(&data, 4) < 8,
                "C03.rtr.error_only_for_impossible_length"
            );
            core::mem::forget(e);
            kani::cover!(true, "impossible length");
        }
    }
    kani::cover!(true, "harness end reachable");
}

/// `Message::from_bytes` on a complete frame (buf.len() == its length field): total, never panics, and reports
/// the frame's length.  Bounded: frames of 8..=40 bytes (the longest PDU parsed is the 32-byte IPv6 Prefix).
#[kani::proof]
#[kani::unwind(18)]
#[kani::stub(alloc::fmt::format, stub_format)]
fn rtr_from_bytes_total() {
    const N: usize = 40;
    let data: [u8; N] = kani::any();
    let len: usize = kani::any();
    kani::assume(len >= 8 && len <= N);
    kani::assume(be32(&data, 4) == len);
    match Message::from_bytes(&data[..len]) {
        Ok((m, n)) => {
            assert!(n == len, "C03.rtr.from_bytes_reports_frame_length");
            assert!(
                Message::is_known_type(data[1]),
                "C03.rtr.only_known_types_decoded"
            );
            core::mem::forget(m);
            kani::cover!(true, "a PDU is decoded");
        }
        Err(e) => {
            core::mem::forget(e);
            kani::cover!(true, "malformed body rejected");
        }
    }
    kani::cover!(true, "harness end reachable");
}

fn stub_from_bytes(buf: &[u8]) -> Result<(Message, usize), crate::error::Error> {
    // contract of from_bytes as far as framing is concerned: any outcome
    if kani::any() {
        Ok((Message::CacheReset, buf.len()))
    } else {
        Err(crate::error::Error::ParseError(String::new()))
    }
}

/// Framing loop of `RtrCodec::decode` with `from_bytes` replaced by "any outcome": a message is returned only
/// after consuming > 0 bytes, "need more bytes" only when no complete PDU is left at the head of the buffer,
/// never a panic.  Bounded: buffers of 0..=24 bytes (up to three PDUs), unwind 5.
#[kani::proof]
#[kani::unwind(5)]
#[kani::stub(alloc::fmt::format, stub_format)]
#[kani::stub(Message::from_bytes, stub_from_bytes)]
fn rtr_decode_framing() {
    const N: usize = 24;
    let data: [u8; N] = kani::any();
    let len: usize = kani::any();
    kani::assume(len <= N);
    let mut src = BytesMut::from(&data[..len]);
    let before = src.len();
    let mut codec = RtrCodec::new();
    let r = codec.decode(&mut src);
    match r {
        Ok(Some(m)) => {
            assert!(src.len() < before, "C03.rtr.message_consumes_input");
            core::mem::forget(m);
            kani::cover!(true, "a message is returned");
        }
        Ok(None) => {
            let rest = src.len();
            assert!(
                rest < 8 || rest < be32(&src, 4),
                "C03.rtr.complete_frame_consumed_or_rejected"
            );
            assert!(
                rest < 8 || be32(&src, 4) >= 8,
                "C03.rtr.short_length_field_rejected"
            );
            kani::cover!(
                before >= 8 && rest < before,
                "unknown PDU skipped, then needs more bytes"
            );
        }
        Err(e) => {
            core::mem::forget(e);
        }
    }
    core::mem::forget(src);
    kani::cover!(true, "harness end reachable");
}
