// Kani harnesses for packet/src/bgp.rs. Compiled inside the real crate under cfg(kani).
use super::*;

fn stub_format(_args: core::fmt::Arguments<'_>) -> String {
    String::new()
}

fn be16(b: &[u8], o: usize) -> usize {
    (((b[o] as u16) << 8) | (b[o + 1] as u16)) as usize
}

// ------------------------------------------------------------------------------------------ C03: framing

fn stub_parse_message(_this: &mut PeerCodec, _buf: &[u8]) -> Result<ParsedMessage, Notification> {
    // contract of parse_message as far as framing is concerned: any outcome, `src` untouched
    if kani::any() {
        Ok(ParsedMessage::Keepalive)
    } else {
        Err(Notification::OpenMalformed)
    }
}

/// `PeerCodec::try_parse` framing (body parser replaced by "any outcome"): exactly one of
///   Ok(None)  and the buffer is untouched and holds no complete frame,
///   the body parser's result and exactly `length` bytes consumed (19 <= length <= negotiated maximum),
///   Err(BadMessageLength) for a length field below 19 or above the negotiated maximum.
/// Bounded: buffers of 0..=40 bytes; the length field and the extended-message flag are fully symbolic.
#[kani::proof]
#[kani::stub(PeerCodec::parse_message, stub_parse_message)]
fn bgp_try_parse_framing() {
    const N: usize = 40;
    let data: [u8; N] = kani::any();
    let len: usize = kani::any();
    kani::assume(len <= N);
    let mut src = BytesMut::from(&data[..len]);
    let mut codec = PeerCodec::new();
    codec.extended_length = kani::any();
    let max = if codec.extended_length { 65535 } else { 4096 };
    let r = codec.try_parse(&mut src);
    let hdr_len = if len >= 19 { be16(&data, 16) } else { 0 };
    match r {
        Ok(None) => {
            assert!(src.len() == len, "C03.bgp.need_more_bytes_leaves_buffer_untouched");
            assert!(len < 19 || (hdr_len >= 19 && hdr_len <= max && len < hdr_len), "C03.bgp.need_more_bytes_only_if_incomplete");
            kani::cover!(len >= 19, "incomplete body");
        }
        Ok(Some(m)) => {
            assert!(len >= 19 && hdr_len >= 19 && hdr_len <= max && hdr_len <= len, "C03.bgp.message_only_from_complete_frame");
            assert!(src.len() == len - hdr_len, "C03.bgp.complete_frame_consumed_exactly");
            core::mem::forget(m);
            kani::cover!(true, "a frame is consumed");
        }
        Err(e) => {
            // either the framing error, or the body parser's error after the frame was consumed
            assert!(len >= 19, "C03.bgp.no_error_before_header");
            if src.len() == len {
                assert!(hdr_len < 19 || hdr_len > max, "C03.bgp.bad_length_only_if_out_of_range");
            } else {
                assert!(src.len() == len - hdr_len, "C03.bgp.rejected_frame_consumed_exactly");
            }
            core::mem::forget(e);
            kani::cover!(src.len() == len, "bad length rejected");
        }
    }
    core::mem::forget(src);
    kani::cover!(true, "harness end reachable");
}

// NOTE: harnesses that enter `PeerCodec::parse_message` do not terminate under CBMC (measured: 20-minute timeout even
// for the KEEPALIVE/NOTIFICATION/ROUTE-REFRESH arms with buffers <= 40 bytes, and for 19..=25-byte UPDATEs with the
// attribute / NLRI decoders stubbed).  parse_message is therefore handled in the Verus lane (unit packet_parse).

// ------------------------------------------------------------------------------------------ C05: validate_update

fn any_block(present: bool, family: u32, id: u32, n: usize) -> Vec<PathNlri> {
    let mut v = Vec::new();
    if present && n > 0 {
        v.push(PathNlri { path_id: id, nlri: Nlri::V4(Ipv4Net { addr: Ipv4Addr::new(10, 0, 0, 0), mask: 8 }) });
    }
    let _ = family;
    v
}

/// The property's classifier: an attribute error may be handled by discarding just that attribute only for an
/// optional non-transitive attribute (by the attribute's definition, i.e. its canonical flags; by the received
/// flags only when the code is unknown), or AS4_PATH / AS4_AGGREGATOR.
fn discardable(code: u8, wire_flags: u8) -> bool {
    if code == Attribute::AS4_PATH || code == Attribute::AS4_AGGREGATOR {
        return true;
    }
    let f = match Attribute::canonical_flags(code) {
        Some(f) => f,
        None => wire_flags,
    };
    f & Attribute::FLAG_OPTIONAL != 0 && f & Attribute::FLAG_TRANSITIVE == 0
}

fn is_flowspec(f: Family) -> bool {
    matches!(f, Family::IPV4_FLOWSPEC | Family::IPV6_FLOWSPEC | Family::IPV4_FLOWSPEC_VPN | Family::IPV6_FLOWSPEC_VPN)
}

fn blk(id: u32) -> Vec<PathNlri> {
    vec![PathNlri { path_id: id, nlri: Nlri::V4(Ipv4Net { addr: Ipv4Addr::new(10, 0, 0, 0), mask: 8 }) }]
}

fn val_attr(code: u8) -> Attribute {
    Attribute { flags: 0x40, code, data: AttributeData::Val(0) }
}

/// C05 (`validate_update`, the RFC 7606 classifier): complete over every (code, flags) pair of up to two recorded
/// attribute errors and the presence of each of the four NLRI blocks (any family, any path id); the UPDATE carries
/// ORIGIN, AS_PATH and a next hop so that only the classifier decides.  Bounded in list lengths only
/// (<= 2 errors, 1 entry per block).
#[kani::proof]
#[kani::unwind(6)]
fn c05_validate_update_classifier() {
    let n_err: usize = kani::any();
    kani::assume(n_err <= 2);
    let c0: u8 = kani::any();
    let f0: u8 = kani::any();
    let c1: u8 = kani::any();
    let f1: u8 = kani::any();
    let mut error_attrs = Vec::new();
    if n_err >= 1 { error_attrs.push(AttributeError { attr_code: c0, attr_flags: f0 }); }
    if n_err >= 2 { error_attrs.push(AttributeError { attr_code: c1, attr_flags: f1 }); }
    let attrs = vec![val_attr(Attribute::ORIGIN), val_attr(Attribute::AS_PATH)];
    let p: [bool; 4] = kani::any();
    let fam: [u32; 4] = kani::any();
    let ids: [u32; 4] = kani::any();
    kani::assume(ids[0] != ids[1] && ids[0] != ids[2] && ids[0] != ids[3] && ids[1] != ids[2] && ids[1] != ids[3] && ids[2] != ids[3]);
    let nh = Some(Nexthop::V4(Ipv4Addr::new(192, 0, 2, 1)));
    let reach = if p[0] { Some(ReachNlri { family: Family(fam[0]), entries: blk(ids[0]), nexthop: nh }) } else { None };
    let mp_reach = if p[1] { Some(ReachNlri { family: Family(fam[1]), entries: blk(ids[1]), nexthop: nh }) } else { None };
    let unreach = if p[2] { Some(UnreachNlri { family: Family(fam[2]), entries: blk(ids[2]) }) } else { None };
    let mp_unreach = if p[3] { Some(UnreachNlri { family: Family(fam[3]), entries: blk(ids[3]) }) } else { None };
    let faulty = (n_err >= 1 && !discardable(c0, f0)) || (n_err >= 2 && !discardable(c1, f1));

    let r = validate_update(ParsedUpdate::Routes { reach, mp_reach, unreach, mp_unreach, attrs, error_attrs }, false);
    assert!(r.is_ok(), "C05.attribute_errors_never_reset_the_session");
    let msgs = r.unwrap();
    assert!(msgs.len() <= 4);
    let mut n_reach = 0;
    let mut withdrawn = [false; 4];
    let mut k = 0;
    while k < msgs.len() {
        match &msgs[k] {
            Message::Update(Update::Reach { family: _, entries, nexthop: _, attr: _ }) => {
                n_reach += 1;
                assert!(!faulty, "C05.no_route_kept_when_nondiscardable_attribute_failed");
                assert!(entries.len() == 1 && ((p[0] && entries[0].path_id == ids[0]) || (p[1] && entries[0].path_id == ids[1])),
                        "C05.kept_route_is_an_announced_one");
            }
            Message::Update(Update::Unreach { family, entries }) => {
                assert!(entries.len() == 1);
                let id = entries[0].path_id;
                if p[0] && id == ids[0] && family.0 == fam[0] { withdrawn[0] = true; }
                if p[1] && id == ids[1] && family.0 == fam[1] { withdrawn[1] = true; }
                if p[2] && id == ids[2] && family.0 == fam[2] { withdrawn[2] = true; }
                if p[3] && id == ids[3] && family.0 == fam[3] { withdrawn[3] = true; }
            }
            _ => { assert!(false, "C05.only_updates_come_out"); }
        }
        k += 1;
    }
    assert!(!p[2] || withdrawn[2], "C05.withdrawals_still_take_effect");
    assert!(!p[3] || withdrawn[3], "C05.mp_withdrawals_still_take_effect");
    if faulty {
        assert!(n_reach == 0, "C05.no_route_kept_when_nondiscardable_attribute_failed");
        assert!(!p[0] || withdrawn[0], "C05.announced_prefixes_treated_as_withdrawn");
        assert!(!p[1] || withdrawn[1], "C05.mp_announced_prefixes_treated_as_withdrawn");
        kani::cover!(p[0] || p[1], "treat-as-withdraw reachable");
    } else {
        assert!(n_reach == (p[0] as usize) + (p[1] as usize), "C05.route_kept_when_only_discardable_attributes_failed");
        assert!(!withdrawn[0] && !withdrawn[1], "C05.kept_route_is_not_withdrawn");
        kani::cover!((p[0] || p[1]) && n_err > 0, "attribute-discard path reachable");
    }
    core::mem::forget(msgs);
    kani::cover!(true, "harness end reachable");
}

/// C05 (`validate_update`, mandatory attributes and iBGP-only attributes): no attribute errors; presence of ORIGIN,
/// AS_PATH, LOCAL_PREF, ORIGINATOR_ID, CLUSTER_LIST, MED symbolic; presence of the announced blocks and of their next hops
/// symbolic; any MP family; is_ebgp symbolic.
#[kani::proof]
#[kani::unwind(8)]
fn c05_validate_update_mandatory_and_ebgp() {
    let has: [bool; 6] = kani::any();
    let codes = [Attribute::ORIGIN, Attribute::AS_PATH, Attribute::LOCAL_PREF, Attribute::ORIGINATOR_ID, Attribute::CLUSTER_LIST, Attribute::MULTI_EXIT_DESC];
    let mut attrs = Vec::new();
    let mut n_attr = 0;
    let mut n_ibgp_only = 0;
    let mut i = 0;
    while i < 6 {
        if has[i] {
            attrs.push(val_attr(codes[i]));
            n_attr += 1;
            if i >= 2 && i <= 4 { n_ibgp_only += 1; }
        }
        i += 1;
    }
    let p: [bool; 2] = kani::any();
    let nhp: [bool; 2] = kani::any();
    let mpfam: u32 = kani::any();
    let nexthop = |b: bool| if b { Some(Nexthop::V4(Ipv4Addr::new(192, 0, 2, 1))) } else { None };
    let reach = if p[0] { Some(ReachNlri { family: Family::IPV4, entries: blk(1), nexthop: nexthop(nhp[0]) }) } else { None };
    let mp_reach = if p[1] { Some(ReachNlri { family: Family(mpfam), entries: blk(2), nexthop: nexthop(nhp[1]) }) } else { None };
    let is_ebgp: bool = kani::any();
    let announces = p[0] || p[1];
    let missing_mandatory = announces
        && (!has[0] || !has[1] || (p[0] && !nhp[0]) || (p[1] && !nhp[1] && !is_flowspec(Family(mpfam))));
    let r = validate_update(
        ParsedUpdate::Routes { reach, mp_reach, unreach: None, mp_unreach: None, attrs, error_attrs: Vec::new() },
        is_ebgp,
    );
    assert!(r.is_ok(), "C05.attribute_errors_never_reset_the_session");
    let msgs = r.unwrap();
    let mut n_reach = 0;
    let mut n_unreach = 0;
    let mut k = 0;
    while k < msgs.len() {
        match &msgs[k] {
            Message::Update(Update::Reach { family: _, entries: _, nexthop: _, attr }) => {
                n_reach += 1;
                assert!(!missing_mandatory, "C05.no_route_kept_when_mandatory_attribute_missing");
                if is_ebgp {
                    assert!(attr.len() == n_attr - n_ibgp_only, "C05.only_ibgp_only_attributes_dropped_from_external_peer");
                    let mut j = 0;
                    while j < attr.len() {
                        let c = attr[j].code();
                        assert!(c != Attribute::LOCAL_PREF && c != Attribute::ORIGINATOR_ID && c != Attribute::CLUSTER_LIST,
                                "C05.ibgp_only_attributes_dropped_from_external_peer");
                        j += 1;
                    }
                } else {
                    assert!(attr.len() == n_attr, "C05.attributes_untouched_from_internal_peer");
                }
            }
            Message::Update(Update::Unreach { .. }) => { n_unreach += 1; }
            _ => { assert!(false, "C05.only_updates_come_out"); }
        }
        k += 1;
    }
    if missing_mandatory {
        assert!(n_reach == 0 && n_unreach == (p[0] as usize) + (p[1] as usize), "C05.missing_mandatory_attribute_treated_as_withdraw");
        kani::cover!(true, "missing-mandatory path reachable");
    } else {
        assert!(n_unreach == 0 && n_reach == (p[0] as usize) + (p[1] as usize), "C05.clean_update_keeps_its_routes");
        kani::cover!(announces && is_ebgp && n_ibgp_only > 0, "ebgp strip path reachable");
    }
    core::mem::forget(msgs);
    kani::cover!(true, "harness end reachable");
}

// ------------------------------------------------------------------------------------------ C16: IpNet::contains

/// C16 (dynamic-neighbour prefix containment): `IpNet::contains` agrees with the arithmetic definition
/// (same family and equal leading `mask` bits) for every IPv4 prefix, mask 0..=32 and address.
/// Complete over its inputs (32 + 6 + 32 bits; the only loop runs mask/8 <= 4 times).
/// Preconditions made explicit: mask <= 32 and the prefix has no host bits set.
#[kani::proof]
#[kani::unwind(6)]
fn c16_ipnet_contains_v4() {
    let net: u32 = kani::any();
    let mask: u8 = kani::any();
    let addr: u32 = kani::any();
    kani::assume(mask <= 32);
    let shift = 32 - mask as u32;
    let hostmask: u32 = if mask == 0 { u32::MAX } else { (1u64 << shift) as u32 - 1 };
    kani::assume(net & hostmask == 0);
    let n = IpNet::V4(Ipv4Net { addr: Ipv4Addr::from(net), mask });
    let r = n.contains(&IpAddr::V4(Ipv4Addr::from(addr)));
    let expect = mask == 0 || (addr >> shift) == (net >> shift);
    assert!(r == expect, "C16.prefix_contains_iff_leading_bits_equal");
    kani::cover!(r && mask > 0 && mask < 32, "contained");
    kani::cover!(!r, "not contained");
    // other family is never contained
    let six: u128 = kani::any();
    assert!(!n.contains(&IpAddr::V6(Ipv6Addr::from(six))), "C16.prefix_never_contains_other_family");
    kani::cover!(true, "harness end reachable");
}

/// IPv6 counterpart (128 + 8 + 128 bits, loop <= 16 iterations): complete.
#[kani::proof]
#[kani::unwind(18)]
fn c16_ipnet_contains_v6() {
    let net: u128 = kani::any();
    let mask: u8 = kani::any();
    let addr: u128 = kani::any();
    kani::assume(mask <= 128);
    let shift = 128 - mask as u32;
    let hostmask: u128 = if mask == 0 { u128::MAX } else if mask == 128 { 0 } else { (1u128 << shift) - 1 };
    kani::assume(net & hostmask == 0);
    let n = IpNet::V6(Ipv6Net { addr: Ipv6Addr::from(net), mask });
    let r = n.contains(&IpAddr::V6(Ipv6Addr::from(addr)));
    let expect = mask == 0 || (mask == 128 && addr == net) || (mask < 128 && (addr >> shift) == (net >> shift));
    assert!(r == expect, "C16.prefix_contains_iff_leading_bits_equal");
    kani::cover!(r && mask > 0 && mask < 128, "contained");
    kani::cover!(!r, "not contained");
    kani::cover!(true, "harness end reachable");
}
