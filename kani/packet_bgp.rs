// Kani harnesses for packet/src/bgp.rs. Compiled inside the real crate under cfg(kani).
use super::*;

fn stub_format(_args: core::fmt::Arguments<'_>) -> String {
    String::new()
}

fn be16(b: &[u8], o: usize) -> usize {
    (((b[o] as u16) << 8) | (b[o + 1] as u16)) as usize
}

// ------------------------------------------------------------------------------------------ C03: framing

fn stub_parse_message(_this: &mut PeerCodec, _buf: &[u8]) -> Result<ParsedMessage, Notification> {
    // contract of parse_message as far as framing is concerned: any outcome, `src` untouched
    if kani::any() {
        Ok(ParsedMessage::Keepalive)
    } else {
        Err(Notification::OpenMalformed)
    }
}

/// `PeerCodec::try_parse` framing (body parser replaced by "any outcome"): exactly one of
///   Ok(None)  and the buffer is untouched and holds no complete frame,
///   the body parser's result and exactly `length` bytes consumed (19 <= length <= negotiated maximum),
///   Err(BadMessageLength) for a length field below 19 or above the negotiated maximum.
/// Bounded: buffers of 0..=40 bytes; the length field and the extended-message flag are fully symbolic.
#[kani::proof]
#[kani::stub(PeerCodec::parse_message, stub_parse_message)]
fn bgp_try_parse_framing() {
    const N: usize = 40;
    let data: [u8; N] = kani::any();
    let len: usize = kani::any();
    kani::assume(len <= N);
    let mut src = BytesMut::from(&data[..len]);
    let mut codec = PeerCodec::new();
    codec.extended_length = kani::any();
    let max = if codec.extended_length { 65535 } else { 4096 };
    let r = codec.try_parse(&mut src);
    let hdr_len = if len >= 19 { be16(&data, 16) } else { 0 };
    match r {
        Ok(None) => {
            assert!(
                src.len() == len,
                "C03.bgp.need_more_bytes_leaves_buffer_untouched"
            );
            assert!(
                len < 19 || (hdr_len >= 19 && hdr_len <= max && len < hdr_len),
                "C03.bgp.need_more_bytes_only_if_incomplete"
            );
            kani::cover!(len >= 19, "incomplete body");
        }
        Ok(Some(m)) => {
            assert!(
                len >= 19 && hdr_len >= 19 && hdr_len <= max && hdr_len <= len,
                "C03.bgp.message_only_from_complete_frame"
            );
            assert!(
                src.len() == len - hdr_len,
                "C03.bgp.complete_frame_consumed_exactly"
            );
            core::mem::forget(m);
            kani::cover!(true, "a frame is consumed");
        }
        Err(e) => {
            // either the framing error, or the body parser's error after the frame was consumed
            assert!(len >= 19, "C03.bgp.no_error_before_header");
            if src.len() == len {
                assert!(
                    hdr_len < 19 || hdr_len > max,
                    "C03.bgp.bad_length_only_if_out_of_range"
                );
            } else {
                assert!(
                    src.len() == len - hdr_len,
                    "C03.bgp.rejected_frame_consumed_exactly"
                );
            }
            core::mem::forget(e);
            kani::cover!(src.len() == len, "bad length rejected");
        }
    }
    core::mem::forget(src);
    kani::cover!(true, "harness end reachable");
}

// NOTE: harnesses that enter `PeerCodec::parse_message` do not terminate under CBMC (measured: 20-minute timeout even
// for the KEEPALIVE/NOTIFICATION/ROUTE-REFRESH arms with buffers <= 40 bytes, and for 19..=25-byte UPDATEs with the
// attribute / NLRI decoders stubbed).  parse_message is therefore handled in the Verus lane (unit packet_parse).

// ------------------------------------------------------------------------------------------ C05: canonical_flags
// validate_update itself is verified in the Verus lane (unit packet_validate): CBMC needs > 15 minutes on it
// (measured twice), Verus 2 seconds.  What Verus has to assume is the attribute flag table, proved here.

/// `Attribute::canonical_flags` equals the RFC flag table used as `spec_canonical` in /verif/specs/p_packet.rs,
/// for all 256 attribute type codes (loop-free, full domain: complete).
#[kani::proof]
fn c05_canonical_flags_table() {
    let code: u8 = kani::any();
    let expect: Option<u8> = if code == 1 || code == 2 || code == 3 || code == 5 || code == 6 {
        Some(0x40)
    } else if code == 4
        || code == 9
        || code == 10
        || code == 14
        || code == 15
        || code == 26
        || code == 29
    {
        Some(0x80)
    } else if code == 7
        || code == 8
        || code == 16
        || code == 17
        || code == 18
        || code == 32
        || code == 40
        || code == 23
    {
        Some(0xC0)
    } else {
        None
    };
    assert!(
        Attribute::canonical_flags(code) == expect,
        "C05.canonical_flags_is_the_rfc_flag_table"
    );
    kani::cover!(expect.is_some(), "known code");
    kani::cover!(expect.is_none(), "unknown code");
}

// ------------------------------------------------------------------------------------------ C16: IpNet::contains

/// C16 (dynamic-neighbour prefix containment): `IpNet::contains` agrees with the arithmetic definition
/// (same family and equal leading `mask` bits) for every IPv4 prefix, mask 0..=32 and address.
/// Complete over its inputs (32 + 6 + 32 bits; the only loop runs mask/8 <= 4 times).
/// Preconditions made explicit: mask <= 32 and the prefix has no host bits set.
#[kani::proof]
#[kani::unwind(6)]
fn c16_ipnet_contains_v4() {
    let net: u32 = kani::any();
    let mask: u8 = kani::any();
    let addr: u32 = kani::any();
    kani::assume(mask <= 32);
    let shift = 32 - mask as u32;
    let hostmask: u32 = if mask == 0 {
        u32::MAX
    } else {
        (1u64 << shift) as u32 - 1
    };
    kani::assume(net & hostmask == 0);
    let n = IpNet::V4(Ipv4Net {
        addr: Ipv4Addr::from(net),
        mask,
    });
    let r = n.contains(&IpAddr::V4(Ipv4Addr::from(addr)));
    let expect = mask == 0 || (addr >> shift) == (net >> shift);
    assert!(r == expect, "C16.prefix_contains_iff_leading_bits_equal");
    kani::cover!(r && mask > 0 && mask < 32, "contained");
    kani::cover!(!r, "not contained");
    // other family is never contained
    let six: u128 = kani::any();
    assert!(
        !n.contains(&IpAddr::V6(Ipv6Addr::from(six))),
        "C16.prefix_never_contains_other_family"
    );
    kani::cover!(true, "harness end reachable");
}

/// IPv6 counterpart (128 + 8 + 128 bits, loop <= 16 iterations): complete.
#[kani::proof]
#[kani::unwind(18)]
fn c16_ipnet_contains_v6() {
    let net: u128 = kani::any();
    let mask: u8 = kani::any();
    let addr: u128 = kani::any();
    kani::assume(mask <= 128);
    let shift = 128 - mask as u32;
    let hostmask: u128 = if mask == 0 {
        u128::MAX
    } else if mask == 128 {
        0
    } else {
        (1u128 << shift) - 1
    };
    kani::assume(net & hostmask == 0);
    let n = IpNet::V6(Ipv6Net {
        addr: Ipv6Addr::from(net),
        mask,
    });
    let r = n.contains(&IpAddr::V6(Ipv6Addr::from(addr)));
    let expect = mask == 0
        || (mask == 128 && addr == net)
        || (mask < 128 && (addr >> shift) == (net >> shift));
    assert!(r == expect, "C16.prefix_contains_iff_leading_bits_equal");
    kani::cover!(r && mask > 0 && mask < 128, "contained");
    kani::cover!(!r, "not contained");
    kani::cover!(true, "harness end reachable");
}

// ------------------------------------------------------------------------------------------ C03: per-family NLRI decoders

/// One NLRI of the given family out of up to N symbolic bytes: never panics; Ok ==> at least one byte was consumed
/// and the reader stays inside the buffer (this is what makes decode_nlri_list terminate).  BOUNDED: N bytes.
fn nlri_decode_one(family: Family, n_max: usize, data: &[u8; 40]) {
    let len: usize = kani::any();
    kani::assume(len <= n_max);
    let mut reader = BgpReader::<UpdateCtx>::new(&data[..len]);
    let rest = reader.remaining_len();
    let addpath: bool = kani::any();
    let is_reach: bool = kani::any();
    match PeerCodec::decode_nlri(family, addpath, is_reach, &mut reader, rest) {
        Ok(n) => {
            assert!(reader.pos > 0, "C03.nlri.decoded_entry_consumes_input");
            assert!(reader.pos <= len, "C03.nlri.reader_stays_inside_buffer");
            core::mem::forget(n);
            kani::cover!(true, "an NLRI is decoded");
        }
        Err(e) => {
            assert!(reader.pos <= len, "C03.nlri.reader_stays_inside_buffer");
            core::mem::forget(e);
        }
    }
    kani::cover!(true, "harness end reachable");
}

macro_rules! nlri_harness {
    ($name:ident, $fam:expr, $n:expr, $unw:expr) => {
        #[kani::proof]
        #[kani::unwind($unw)]
        #[kani::stub(alloc::fmt::format, stub_format)]
        fn $name() {
            let data: [u8; 40] = kani::any();
            nlri_decode_one($fam, $n, &data);
        }
    };
}

nlri_harness!(c03_nlri_ipv4, Family::IPV4, 12, 14);
nlri_harness!(c03_nlri_ipv6, Family::IPV6, 24, 26);
nlri_harness!(c03_nlri_vpnv4, Family::IPV4_VPN, 24, 26);
nlri_harness!(c03_nlri_vpnv6, Family::IPV6_VPN, 36, 38);
nlri_harness!(c03_nlri_mplsv4, Family::IPV4_MPLS, 20, 22);
nlri_harness!(c03_nlri_mplsv6, Family::IPV6_MPLS, 32, 34);
nlri_harness!(c03_nlri_mupv4, Family::IPV4_MUP, 32, 34);
nlri_harness!(c03_nlri_flowspecv4, Family::IPV4_FLOWSPEC, 20, 22);
nlri_harness!(c03_nlri_flowspecv6, Family::IPV6_FLOWSPEC, 24, 26);
nlri_harness!(c03_nlri_ls, Family::LS, 32, 34);
nlri_harness!(c03_nlri_srpolicyv4, Family::IPV4_SRPOLICY, 24, 26);
nlri_harness!(c03_nlri_evpn, Family::L2VPN_EVPN, 40, 42);
nlri_harness!(c03_nlri_rtc, Family::RTC, 16, 18);

// ------------------------------------------------------------------------------------------ C05: attribute body decoder

/// `Attribute::decode` for one attribute type with a fixed or modular length rule: the attribute is accepted (Ok) only
/// if its length obeys the rule of its defining RFC, it is stored with the code and flags received, ORIGIN holds a
/// defined value; never panics.  BOUNDED: attribute values of 0..=26 bytes.
fn attr_decode_check(code: u8) {
    let flags: u8 = kani::any();
    let len: u16 = kani::any();
    kani::assume(len <= 26);
    let data: [u8; 26] = kani::any();
    let mut cur = std::io::Cursor::new(&data[..len as usize]);
    match Attribute::decode(code, flags, &mut cur, len, false) {
        Ok(a) => {
            assert!(a.code() == code && a.flags() == flags, "C05.decode.stored_with_the_code_and_flags_received");
            // what the attribute walk of parse_message relies on: the next header starts right behind the value
            assert!(cur.position() == len as u64, "C05.decode.accepted_value_is_consumed_whole");
            let ok = match code {
                1 => len == 1,
                4 | 5 | 9 => len == 4,
                6 => len == 0,
                7 => len == 6 || len == 8,
                8 | 10 => len % 4 == 0,
                16 => len % 8 == 0,
                18 => len == 8,
                32 => len % 12 == 0,
                _ => true,
            };
            assert!(ok, "C05.decode.length_obeys_the_attributes_rfc");
            if code == 1 {
                assert!(a.value().is_some_and(|v| v <= 2), "C05.decode.origin_value_is_defined");
            }
            kani::cover!(true, "some value is accepted");
            core::mem::forget(a);
        }
        Err(_) => {
            kani::cover!(true, "some value is rejected");
        }
    }
    kani::cover!(true, "harness end reachable");
}

macro_rules! attr_decode_harness {
    ($name:ident, $code:expr) => {
        #[kani::proof]
        #[kani::unwind(28)]
        fn $name() {
            attr_decode_check($code);
        }
    };
}
attr_decode_harness!(c05_attr_decode_origin, 1);
attr_decode_harness!(c05_attr_decode_med, 4);
attr_decode_harness!(c05_attr_decode_local_pref, 5);
attr_decode_harness!(c05_attr_decode_atomic_aggregate, 6);
attr_decode_harness!(c05_attr_decode_aggregator, 7);
attr_decode_harness!(c05_attr_decode_community, 8);
attr_decode_harness!(c05_attr_decode_originator_id, 9);
attr_decode_harness!(c05_attr_decode_cluster_list, 10);
attr_decode_harness!(c05_attr_decode_ext_community, 16);
attr_decode_harness!(c05_attr_decode_as4_aggregator, 18);
attr_decode_harness!(c05_attr_decode_large_community, 32);

/// well-formed AS_PATH value in the internal (four-octet) form: whole segments only, each with a defined type
fn as_path_wf(b: &[u8], min_count: u8) -> bool {
    let mut pos = 0usize;
    let mut k = 0;
    while pos < b.len() {
        if k >= 8 { return false; }           // (bounded walk: at most 7 segments fit into 14 bytes)
        k += 1;
        if pos + 2 > b.len() { return false; }
        let t = b[pos];
        let n = b[pos + 1];
        if !(1..=4).contains(&t) || n < min_count { return false; }
        pos += 2 + n as usize * 4;
        if pos > b.len() { return false; }
    }
    true
}

/// `Attribute::decode` for AS_PATH / AS4_PATH: accepted only if the value is a sequence of whole segments with defined
/// types (AS4_PATH: non-empty segments, at least one), stored as received (four-octet mode) or up-converted segment by
/// segment (two-octet mode); never panics.  BOUNDED: values of 0..=14 bytes.
fn as_path_decode_check<const L: usize>(code: u8, two_byte_as: bool) {
    // the value length is a constant of the harness (a symbolic length made CBMC time out on the buffer copy):
    // one instance per length
    let flags: u8 = kani::any();
    let len: u16 = L as u16;
    let data: [u8; L] = kani::any();
    let mut cur = std::io::Cursor::new(&data[..]);
    match Attribute::decode(code, flags, &mut cur, len, two_byte_as) {
        Ok(a) => {
            assert!(a.code() == code && a.flags() == flags, "C05.decode.stored_with_the_code_and_flags_received");
            assert!(cur.position() == len as u64, "C05.decode.accepted_value_is_consumed_whole");
            let bin = a.binary();
            assert!(bin.is_some(), "C05.decode.as_path_is_stored_as_a_byte_string");
            let bin = bin.unwrap();
            assert!(as_path_wf(bin, if code == 17 { 1 } else { 0 }), "C05.decode.as_path_is_whole_segments_of_defined_types");
            if code == 17 {
                assert!(len >= 6, "C05.decode.as4_path_is_not_empty");
            }
            if !two_byte_as || code == 17 {
                assert!(bin.len() == len as usize, "C05.decode.as_path_stored_as_received");
            }
            kani::cover!(true, "some value is accepted");
        }
        Err(_) => {}
    }
    kani::cover!(true, "harness end reachable");
}

/// a value of odd length cannot consist of whole segments (each is 2 + 4k, in two-octet mode 2 + 2k, octets): rejected
fn as_path_odd_length_check<const L: usize>(code: u8, two_byte_as: bool) {
    let flags: u8 = kani::any();
    let data: [u8; L] = kani::any();
    let mut cur = std::io::Cursor::new(&data[..]);
    let r = Attribute::decode(code, flags, &mut cur, L as u16, two_byte_as);
    assert!(r.is_err(), "C05.decode.as_path_with_a_stray_octet_is_rejected");
    kani::cover!(true, "harness end reachable");
    core::mem::forget(r);
}

// (two-octet mode — the up-conversion pushes into a growing Vec — did not terminate in CBMC within 250 s even for 4 bytes: not covered)
macro_rules! as_path_harness {
    ($name:ident, $check:ident, $len:expr, $code:expr, $two:expr) => {
        #[kani::proof]
        #[kani::unwind(16)]
        fn $name() {
            $check::<$len>($code, $two);
        }
    };
}
as_path_harness!(c05_attr_decode_as_path_len0, as_path_decode_check, 0, 2, false);
as_path_harness!(c05_attr_decode_as_path_len6, as_path_decode_check, 6, 2, false);
as_path_harness!(c05_attr_decode_as_path_len7, as_path_odd_length_check, 7, 2, false);
as_path_harness!(c05_attr_decode_as_path_len8, as_path_decode_check, 8, 2, false);
as_path_harness!(c05_attr_decode_as_path_len12, as_path_decode_check, 12, 2, false);
as_path_harness!(c05_attr_decode_as4_path_len6, as_path_decode_check, 6, 17, false);
as_path_harness!(c05_attr_decode_as4_path_len7, as_path_odd_length_check, 7, 17, false);
as_path_harness!(c05_attr_decode_as4_path_len12, as_path_decode_check, 12, 17, false);

// ------------------------------------------------------------------------------------------ C04: leaf round trip, IPv4 / IPv6 unicast entries

/// One IPv4 / IPv6 unicast UPDATE entry (path identifier iff ADD-PATH, then length and prefix octets) written the way
/// do_encode / mp_reach_encode write it and read back with the peer's decoder: the same (prefix, path-id) comes out, every
/// byte written is consumed, and Nlri::encode returns the number of bytes it wrote.  Over every value "obtained by
/// decoding" (octets behind the prefix length are zero — what Ipv4Net::decode / Ipv6Net::decode produce): all addresses,
/// all prefix lengths, all path identifiers.  COMPLETE (the loops are bounded by the address width; unwinding assertions on).
#[kani::proof]
#[kani::unwind(6)]
fn c04_ipv4_entry_round_trip() {
    let a: [u8; 4] = kani::any();
    let mask: u8 = kani::any();
    kani::assume(mask <= 32);
    let n = (mask as usize + 7) / 8;
    kani::assume((n > 0 || a[0] == 0) && (n > 1 || a[1] == 0) && (n > 2 || a[2] == 0) && (n > 3 || a[3] == 0));
    let addpath: bool = kani::any();
    let id: u32 = kani::any();
    kani::assume(addpath || id == 0);
    let item = PathNlri { path_id: id, nlri: Nlri::V4(Ipv4Net { addr: Ipv4Addr::from(a), mask }) };
    let mut buf = [0u8; 9];
    let used = {
        let mut dst = &mut buf[..];
        if addpath {
            dst.put_u32(item.path_id);
        }
        let l = item.nlri.encode(&mut dst).unwrap();
        assert!(l as usize == 1 + n, "C04.leaf.nlri_encode_returns_the_bytes_written");
        9 - dst.len()
    };
    assert!(used == (if addpath { 4 } else { 0 }) + 1 + n, "C04.leaf.entry_is_path_id_length_and_prefix_octets");
    let mut r = BgpReader::<UpdateCtx>::new(&buf[..used]);
    match PeerCodec::decode_nlri(Family::IPV4, addpath, true, &mut r, used) {
        Ok(d) => {
            assert!(d == item, "C04.leaf.decoding_an_encoded_entry_yields_the_same_prefix_and_path_id");
            assert!(r.remaining_len() == 0, "C04.leaf.every_byte_written_is_consumed");
            kani::cover!(mask == 32 && addpath, "a host route with a path identifier goes round");
            kani::cover!(mask == 0, "the default route goes round");
            core::mem::forget(d);
        }
        Err(e) => {
            core::mem::forget(e);
            assert!(false, "C04.leaf.an_encoded_entry_is_accepted_by_the_decoder");
        }
    }
    core::mem::forget(item);
    kani::cover!(true, "harness end reachable");
}

#[kani::proof]
#[kani::unwind(18)]
fn c04_ipv6_entry_round_trip() {
    let a: [u8; 16] = kani::any();
    let mask: u8 = kani::any();
    kani::assume(mask <= 128);
    let n = (mask as usize + 7) / 8;
    let mut i = 0;
    while i < 16 {
        kani::assume(i < n || a[i] == 0);
        i += 1;
    }
    let addpath: bool = kani::any();
    let id: u32 = kani::any();
    kani::assume(addpath || id == 0);
    let item = PathNlri { path_id: id, nlri: Nlri::V6(Ipv6Net { addr: Ipv6Addr::from(a), mask }) };
    let mut buf = [0u8; 21];
    let used = {
        let mut dst = &mut buf[..];
        if addpath {
            dst.put_u32(item.path_id);
        }
        let l = item.nlri.encode(&mut dst).unwrap();
        assert!(l as usize == 1 + n, "C04.leaf.nlri_encode_returns_the_bytes_written");
        21 - dst.len()
    };
    assert!(used == (if addpath { 4 } else { 0 }) + 1 + n, "C04.leaf.entry_is_path_id_length_and_prefix_octets");
    let mut r = BgpReader::<UpdateCtx>::new(&buf[..used]);
    match PeerCodec::decode_nlri(Family::IPV6, addpath, true, &mut r, used) {
        Ok(d) => {
            assert!(d == item, "C04.leaf.decoding_an_encoded_entry_yields_the_same_prefix_and_path_id");
            assert!(r.remaining_len() == 0, "C04.leaf.every_byte_written_is_consumed");
            kani::cover!(mask == 128 && addpath, "a host route with a path identifier goes round");
            kani::cover!(mask == 0, "the default route goes round");
            core::mem::forget(d);
        }
        Err(e) => {
            core::mem::forget(e);
            assert!(false, "C04.leaf.an_encoded_entry_is_accepted_by_the_decoder");
        }
    }
    core::mem::forget(item);
    kani::cover!(true, "harness end reachable");
}
