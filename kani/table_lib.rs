// Kani harnesses for table/src/lib.rs. Compiled inside the real crate under cfg(kani).
use super::*;

const W: usize = 4; // bitmap words explored (256 local ids), each word over its full 64-bit domain

fn live(bits: &[u64; W], n: usize, local: u32) -> bool {
    let i = (local / 64) as usize;
    i < n && (bits[i] >> (local % 64)) & 1 == 1
}

fn mk(words: &[u64; W], n: usize, shard: u32) -> IdAllocator {
    let mut a = IdAllocator::new(shard);
    let mut i = 0;
    while i < n {
        a.bits.push(words[i]);
        i += 1;
    }
    a
}

/// C06 (identifier clause): `IdAllocator::alloc` hands out an id that no live prefix of the shard holds, marks
/// exactly that id live and keeps the shard index in bits 31..24. (Which free id is picked, and whether the bitmap is
/// trimmed, is the allocator's business: the property does not ask for it and no assertion does.)
/// BOUNDED: <= 4 bitmap words (256 live ids), each word fully symbolic; invariant: no trailing zero word.
#[kani::proof]
#[kani::unwind(7)]
fn c06_id_alloc_unique() {
    let words: [u64; W] = kani::any();
    let n: usize = kani::any();
    kani::assume(n <= W - 1); // room for the push of a new word
    kani::assume(n == 0 || words[n - 1] != 0); // representation invariant
    let shard: u32 = kani::any();
    kani::assume(shard < 256);
    let mut a = mk(&words, n, shard);
    let id = a.alloc();
    let local = id & 0x00FF_FFFF;
    assert!(id >> 24 == shard, "C06.id_carries_shard_index");
    assert!(!live(&words, n, local), "C06.allocated_id_was_free");
    // now live, everything else unchanged
    let n2 = a.bits.len();
    assert!(n2 >= n && n2 <= W);
    let mut after = [0u64; W];
    let mut i = 0;
    while i < n2 {
        after[i] = a.bits[i];
        i += 1;
    }
    assert!(live(&after, n2, local), "C06.allocated_id_is_live");
    let probe: u32 = kani::any();
    kani::assume(probe < (W as u32) * 64 && probe != local);
    assert!(
        live(&after, n2, probe) == live(&words, n, probe),
        "C06.alloc_changes_no_other_id"
    );
    kani::cover!(n2 > n, "a new bitmap word was pushed");
    kani::cover!(n2 == n && n > 0, "a free bit in an existing word was used");
    core::mem::forget(a);
    kani::cover!(true, "harness end reachable");
}

/// `IdAllocator::dealloc` of a live id frees exactly that id.
/// BOUNDED as above.
#[kani::proof]
#[kani::unwind(7)]
fn c06_id_dealloc_exact() {
    let words: [u64; W] = kani::any();
    let n: usize = kani::any();
    kani::assume(n >= 1 && n <= W);
    kani::assume(words[n - 1] != 0);
    let shard: u32 = kani::any();
    kani::assume(shard < 256);
    let local: u32 = kani::any();
    kani::assume(local < (n as u32) * 64 && live(&words, n, local));
    let mut a = mk(&words, n, shard);
    a.dealloc((shard << 24) | local);
    let n2 = a.bits.len();
    assert!(n2 <= n);
    let mut after = [0u64; W];
    let mut i = 0;
    while i < n2 {
        after[i] = a.bits[i];
        i += 1;
    }
    assert!(!live(&after, n2, local), "C06.deallocated_id_is_free");
    let probe: u32 = kani::any();
    kani::assume(probe < (W as u32) * 64 && probe != local);
    assert!(
        live(&after, n2, probe) == live(&words, n, probe),
        "C06.dealloc_changes_no_other_id"
    );
    kani::cover!(n2 < n, "trailing words were trimmed");
    core::mem::forget(a);
    kani::cover!(true, "harness end reachable");
}

/// must-fail twin: claiming alloc returns a *live* id has to be refuted
#[kani::proof]
#[kani::unwind(7)]
fn c06_id_alloc_mustfail() {
    let words: [u64; W] = kani::any();
    let n: usize = kani::any();
    kani::assume(n <= W - 1);
    kani::assume(n == 0 || words[n - 1] != 0);
    let mut a = mk(&words, n, 0);
    let id = a.alloc();
    assert!(live(&words, n, id & 0x00FF_FFFF));
}

// ------------------------------------------------------------------------------------------ C12: covering keys

/// The octet-level key of the /len prefix covering an IPv4 address (RpkiTable::covering_key) is the address with its
/// low 32-len bits cleared, followed by len — for every address and every len 0..=32 (loop of 4 iterations: complete).
#[kani::proof]
#[kani::unwind(6)]
fn c12_covering_key_v4() {
    let a: u32 = kani::any();
    let len: u8 = kani::any();
    kani::assume(len <= 32);
    let key = RpkiTable::covering_key(&a.to_be_bytes(), len);
    assert!(
        key.len() == 5 && key[4] == len,
        "C12.covering_key_ends_with_length"
    );
    let got = u32::from_be_bytes([key[0], key[1], key[2], key[3]]);
    let want = if len == 0 {
        0
    } else {
        (a >> (32 - len as u32)) << (32 - len as u32)
    };
    assert!(
        got == want,
        "C12.covering_key_is_the_address_with_host_bits_cleared"
    );
    kani::cover!(len % 8 != 0, "length inside an octet");
    core::mem::forget(key);
}

/// IPv6 counterpart (16 iterations): complete.
#[kani::proof]
#[kani::unwind(18)]
fn c12_covering_key_v6() {
    let a: u128 = kani::any();
    let len: u8 = kani::any();
    kani::assume(len <= 128);
    let key = RpkiTable::covering_key(&a.to_be_bytes(), len);
    assert!(
        key.len() == 17 && key[16] == len,
        "C12.covering_key_ends_with_length"
    );
    let mut b = [0u8; 16];
    let mut i = 0;
    while i < 16 {
        b[i] = key[i];
        i += 1;
    }
    let got = u128::from_be_bytes(b);
    let want = if len == 0 {
        0
    } else {
        (a >> (128 - len as u32)) << (128 - len as u32)
    };
    assert!(
        got == want,
        "C12.covering_key_is_the_address_with_host_bits_cleared"
    );
    kani::cover!(len % 8 != 0, "length inside an octet");
    core::mem::forget(key);
}
