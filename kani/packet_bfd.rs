// Kani harnesses for packet/src/bfd.rs (C03: BFD decoder). Compiled inside the real crate under cfg(kani)
// through the hook `#[cfg(kani)] #[path = "/verif/kani/packet_bfd.rs"] mod verif_kani;`.
use super::*;

const MAXLEN: usize = 300; // > 255: every length a u8 length field can and cannot describe

fn be32(b: &[u8], o: usize) -> u32 {
    ((b[o] as u32) << 24) | ((b[o + 1] as u32) << 16) | ((b[o + 2] as u32) << 8) | (b[o + 3] as u32)
}

/// C03 (BFD): for every datagram of 0..=300 bytes the decoder returns without panicking, accepts
/// exactly the well-formed packets and reports the wire fields unchanged.  `decode` is loop-free,
/// inputs are fully symbolic: complete, not bounded (lengths > 255 can never equal the u8 length field,
/// and no byte beyond offset 23 is read).
#[kani::proof]
fn bfd_decode_total_and_exact() {
    let data: [u8; MAXLEN] = kani::any();
    let len: usize = kani::any();
    kani::assume(len <= MAXLEN);
    let buf = &data[..len];
    let r = Message::decode(buf);
    let well_formed = len >= MIN_LEN && len == data[3] as usize && (data[0] >> 5) == VERSION;
    match r {
        Ok(m) => {
            assert!(well_formed); // C03.bfd.accepts_only_well_formed
            assert!(m.diagnostic.0 == data[0] & 0x1f);
            assert!(m.state as u8 == data[1] >> 6);
            assert!(m.poll == ((data[1] >> 5) & 1 != 0));
            assert!(m.final_ == ((data[1] >> 4) & 1 != 0));
            assert!(m.control_plane_independent == ((data[1] >> 3) & 1 != 0));
            assert!(m.demand == ((data[1] >> 1) & 1 != 0));
            assert!(m.detect_multiplier == data[2]);
            assert!(m.my_discriminator == be32(&data, 4));
            assert!(m.your_discriminator == be32(&data, 8));
            assert!(m.desired_min_tx_interval == be32(&data, 12));
            assert!(m.required_min_rx_interval == be32(&data, 16));
            assert!(m.required_min_echo_rx_interval == be32(&data, 20));
            kani::cover!(true, "accepting path reachable");
        }
        Err(_) => {
            assert!(!well_formed); // C03.bfd.complete_frame_consumed_or_rejected
            kani::cover!(
                len >= MIN_LEN,
                "rejecting path reachable for full-size datagram"
            );
        }
    }
    kani::cover!(true, "harness end reachable");
}

/// must-fail twin: the negated acceptance claim has to be refuted
#[kani::proof]
fn bfd_decode_mustfail() {
    let data: [u8; 32] = kani::any();
    let len: usize = kani::any();
    kani::assume(len <= 32);
    let r = Message::decode(&data[..len]);
    assert!(r.is_err());
}
