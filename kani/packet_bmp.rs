// Kani harnesses (see DESIGN.md §3.2)
