#!/usr/bin/env python3
"""mutsweep.py <unit> [--max N] [--seed S] [--worker K] [--out FILE]

Operator-mutation sweep over the functions a Verus unit has under contract (a development aid, not a registered check):
for each sampled mutant of the REAL source (one token-level operator change inside a verified function) the unit is run
against a scratch copy of /repo carrying only that change, and the outcome is recorded:

  detected   the unit reports a failed obligation (what `check` turns into a VIOLATION)
  undecided  front-end error / lost anchor (what `check` turns into exit 2)
  survived   everything still verifies: either an equivalent mutant or a contract that is too weak there

Survivors are then run against the crate's own tests (`cargo test -p <pkg>`): `tests_kill` tells whether the existing
suite would have caught the change.  The scratch copy lives under /var/tmp/ms-<worker>/ and is removed at the end.
"""
import argparse, json, os, random, re, shutil, subprocess, sys, time

VERIF = "/verif"
sys.path.insert(0, os.path.join(VERIF, "vx"))

OPS = [
    # rustfmt puts blanks around binary operators and none inside generics, so a blank on both sides means "operator"
    (r"(?<=\s)<=(?=\s)", ["<"]),
    (r"(?<=\s)>=(?=\s)", [">"]),
    (r"(?<=\s)<(?=\s)", ["<="]),
    (r"(?<=\s)>(?=\s)", [">="]),
    (r"(?<=\s)==(?=\s)", ["!="]),
    (r"(?<=\s)!=(?=\s)", ["=="]),
    (r"(?<=\s)&&(?=\s)", ["||"]),
    (r"(?<=\s)\|\|(?=\s)", ["&&"]),
    (r"(?<![\w)\]])!(?=[\w(])(?!=)", [""]),           # drop a negation
    (r"(?<=\s)\+(?=\s)", ["-"]),
    (r"(?<=\s)-(?=\s)", ["+"]),
    (r"(?<![\w.])(\d+)(?![\w.])", ["+1"]),           # integer literal n -> n + 1
    (r"\btrue\b", ["false"]),
    (r"\bfalse\b", ["true"]),
]


def fn_spans(unit, repo):
    """(file, fn, first_line, last_line) of the functions under contract, from a generator run on the clean tree"""
    ws = f"/var/tmp/ms-span-{os.getpid()}"
    shutil.rmtree(ws, ignore_errors=True)
    os.makedirs(ws)
    subprocess.run(["rsync", "-a", "--exclude", "/target", "--exclude", ".git", repo + "/", ws + "/"], check=True)
    mp = os.path.join(ws, "vx-map.json")
    g = subprocess.run([sys.executable, os.path.join(VERIF, "vx", "gen.py"), os.path.join(VERIF, "specs", unit + ".vspec"), ws, mp],
                       capture_output=True, text=True)
    if g.returncode != 0:
        raise SystemExit("generator failed on the clean tree: " + g.stdout + g.stderr)
    gm = json.load(open(mp))
    shutil.rmtree(ws, ignore_errors=True)
    out = []
    # gm["functions"]: fn, mode, lines; the file is found through gm["files"] regions
    fn_file = {}
    for f in gm["files"]:
        for r in f["regions"]:
            fn_file.setdefault(r["fn"], f["file"])
    for f in gm["functions"]:
        if f["mode"] != "verify":
            continue
        out.append((fn_file.get(f["fn"]), f["fn"], f["lines"][0], f["lines"][1]))
    return out


def mutants(repo, spans):
    res = []
    for file, fn, a, b in spans:
        if not file:
            continue
        lines = open(os.path.join(repo, file)).read().split("\n")
        for ln in range(a, b + 1):
            text = lines[ln - 1]
            code = text.split("//")[0]
            if not code.strip() or code.strip().startswith(("#[", "///", "fn ", "pub fn", "pub(crate) fn")):
                continue
            for pat, reps in OPS:
                for m in re.finditer(pat, code):
                    # skip generics / arrows / attribute-ish contexts
                    ctx = code[max(0, m.start() - 2):m.end() + 2]
                    if "->" in ctx or "=>" in ctx or "::<" in ctx:
                        continue
                    for rep in reps:
                        if rep == "+1":
                            new = str(int(m.group(1)) + 1)
                        else:
                            new = rep
                        mutated = code[:m.start()] + new + code[m.end():] + text[len(code):]
                        res.append({"file": file, "fn": fn, "line": ln, "col": m.start(), "old": m.group(0), "new": new,
                                    "before": text.strip(), "after": mutated.strip(), "_mut_line": mutated})
    return res


def run_unit(unit, repo, wdir):
    env = dict(os.environ)
    env.update({"VX_REPO": repo, "VX_SCRATCH": wdir, "VX_TARGET_DIR": os.path.join(wdir, "target"), "VX_THREADS": "4"})
    p = subprocess.run([sys.executable, os.path.join(VERIF, "vx", "unit.py"), unit], capture_output=True, text=True, env=env, timeout=1800)
    t = p.stdout
    try:
        r = json.loads(t[t.index("{"):])
    except Exception:
        return "undecided", "no json: " + (p.stderr or t)[-300:], []
    errs = [e for e in r.get("errors", []) if not e.get("twin") and not (e.get("fn") or "").startswith("PRELUDE::vx_sanity")]
    # an expected-to-fail twin (vacuity / finding) that now verifies is a failure too, as in `check`
    if r["status"] != "ran":
        return "undecided", (r.get("reason") or "")[:300], []
    lost = r.get("lost_hints") or []
    if errs:
        labels = sorted({(e.get("label") or (e.get("fn") or "") + ": " + e["message"][:60]) for e in errs})
        if lost:
            return "undecided", "failures after lost hints", labels
        return "detected", "", labels
    if lost:
        return "undecided", "lost hints", []
    return "survived", "", []


def main():
    ap = argparse.ArgumentParser()
    ap.add_argument("unit")
    ap.add_argument("--max", type=int, default=30)
    ap.add_argument("--seed", type=int, default=1)
    ap.add_argument("--worker", default="0")
    ap.add_argument("--repo", default="/repo")
    ap.add_argument("--out", default=None)
    ap.add_argument("--fn", default=None, help="only functions whose name contains this")
    a = ap.parse_args()
    from gen import parse_vspec
    u = parse_vspec(os.path.join(VERIF, "specs", a.unit + ".vspec"))
    wdir = f"/var/tmp/ms-{a.worker}"
    os.makedirs(wdir, exist_ok=True)
    repo = os.path.join(wdir, "repo")
    shutil.rmtree(repo, ignore_errors=True)
    subprocess.run(["rsync", "-a", "--exclude", "/target", "--exclude", ".git", a.repo + "/", repo + "/"], check=True)
    spans = fn_spans(a.unit, repo)
    if a.fn:
        spans = [s for s in spans if a.fn in s[1]]
    ms = mutants(repo, spans)
    random.Random(a.seed).shuffle(ms)
    ms = ms[:a.max]
    out = open(a.out or f"/var/tmp/mutsweep-{a.unit}.jsonl", "a")
    # warm-up / sanity: the clean copy must verify
    st, why, _ = run_unit(a.unit, repo, wdir)
    print(f"[{a.unit}] clean tree: {st} {why}", flush=True)
    if st != "survived":
        raise SystemExit("the clean tree does not verify in the worker copy")
    for i, m in enumerate(ms):
        path = os.path.join(repo, m["file"])
        orig = open(path).read()
        lines = orig.split("\n")
        lines[m["line"] - 1] = m["_mut_line"]
        open(path, "w").write("\n".join(lines))
        t0 = time.time()
        try:
            st, why, labels = run_unit(a.unit, repo, wdir)
        except subprocess.TimeoutExpired:
            st, why, labels = "undecided", "timeout", []
        rec = {k: v for k, v in m.items() if not k.startswith("_")}
        rec.update({"unit": a.unit, "status": st, "why": why, "labels": labels[:4], "wall_s": round(time.time() - t0, 1)})
        if st == "survived":
            # would the crate's own tests have caught it?
            p = subprocess.run(f"CARGO_TARGET_DIR={wdir}/test-target cargo test -p {u.package} --offline 2>&1 | grep -E '^test result|FAILED|error(\\[|:)' | head -20",
                               shell=True, cwd=repo, capture_output=True, text=True, timeout=3600)
            o = p.stdout
            rec["tests_kill"] = ("FAILED" in o) or ("error" in o)
            rec["tests_tail"] = o[-300:]
        open(path, "w").write(orig)
        out.write(json.dumps(rec) + "\n"); out.flush()
        print(f"[{a.unit}] {i + 1}/{len(ms)} {st:9s} {m['fn']}:{m['line']} `{m['old']}`->`{m['new']}` {('tests_kill=' + str(rec.get('tests_kill'))) if st == 'survived' else ''} {why[:80]}", flush=True)
    shutil.rmtree(repo, ignore_errors=True)


if __name__ == "__main__":
    main()
