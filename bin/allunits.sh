#!/bin/sh
# allunits.sh: run every Verus unit on /repo's tree and print one line per unit (regression check after generator changes)
cd /verif
for f in specs/*.vspec; do
  u=$(basename $f .vspec)
  python3 vx/unit.py $u 2>/dev/null | python3 -c "
import sys,json
t=sys.stdin.read(); r=json.loads(t[t.index('{'):])
errs=[e for e in r.get('errors',[]) if not e.get('twin') and not (e.get('fn') or '').startswith('PRELUDE::vx_sanity')]
print('%-18s %s errors=%d lost_hints=%s %s' % ('$u', r['status'], len(errs), len(r.get('lost_hints') or []), (r.get('reason') or '')[:120]))
for e in errs[:3]: print('     ', e.get('fn'), '|', e['message'][:90])
"
done
