#!/usr/bin/env python3
"""Insert / refresh `closures k1 ; k2 ; …` lines (the expected closure parameter sequence of a function, used to align
closure annotations when closures are added or removed) in every .vspec, computed from /repo's current tree."""
import os, re, sys
V = os.path.dirname(os.path.dirname(os.path.abspath(__file__)))
sys.path.insert(0, os.path.join(V, "vx"))
from gen import parse_vspec, closure_key
from rtok import tokenize, parse_items, find_closures
REPO = os.environ.get("VX_REPO", "/repo")
for f in sorted(os.listdir(os.path.join(V, "specs"))):
    if not f.endswith(".vspec"): continue
    path = os.path.join(V, "specs", f)
    u = parse_vspec(path)
    keys = {}   # (file, item header, fn) -> keys
    for fs in u.files:
        src = open(os.path.join(REPO, fs.path)).read()
        toks = tokenize(src); items = parse_items(toks, 0, len(toks))
        for isp in fs.items:
            it = [i for i in items if i.header == isp.header]
            if len(it) != 1: continue
            it = it[0]
            fns = [it] if it.kind == "fn" else [c for c in it.children if c.kind == "fn"]
            for fn in fns:
                sp = isp.fns.get(fn.name)
                if sp is None or not sp.closures: continue
                cl = find_closures(toks, fn.body_open + 1, fn.body_close)
                keys[(fs.path, isp.header, fn.name)] = " ; ".join(closure_key(toks, c, src) for c in cl)
    # rewrite the file: after the `fn NAME` / `item fn NAME` line of a function with closures, (re)place the closures line
    lines = open(path).read().split("\n")
    out = []; cur_file = cur_item = None
    i = 0
    from rtok import norm
    while i < len(lines):
        l = lines[i]; s = l.strip()
        if s.startswith("file "): cur_file = s[5:].strip()
        if s.startswith("item "):
            hdr = re.sub(r"\s*\[[^\]]*\]\s*$", "", s[5:]).strip(); cur_item = norm(hdr)
        if s.startswith("closures "):
            i += 1; continue
        out.append(l)
        name = None
        if s.startswith("fn ") : name = s[3:].strip()
        elif s.startswith("item fn "): name = re.sub(r"\s*\[[^\]]*\]\s*$", "", s[8:]).strip()
        if name and (cur_file, cur_item, name) in keys:
            ind = re.match(r"\s*", l).group(0) + "  "
            out.append(f"{ind}closures {keys[(cur_file, cur_item, name)]}")
        i += 1
    open(path, "w").write("\n".join(out))
    print(f, len(keys), "functions with closure keys")
