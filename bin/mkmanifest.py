#!/usr/bin/env python3
"""Regenerate MANIFEST.json from vx/plan.py + the per-property texts in manifest_texts.py."""
import json, os, sys
V = os.path.dirname(os.path.dirname(os.path.abspath(__file__)))
sys.path.insert(0, os.path.join(V, "vx"))
import plan, manifest_texts as T

props = [json.loads(l)["id"] for l in open(os.path.join(V, "properties.jsonl"))]
checks = []
for pid in props:
    if pid not in plan.PLAN:
        continue
    t = T.CHECKS[pid]
    checks.append({
        "property_id": pid,
        "quick_cmd": f"./check {pid} --tier quick",
        "thorough_cmd": f"./check {pid} --tier thorough",
        "evidence_file": f"/verif/evidence/{pid}.json",
        "replay_cmd_template": f"./check {pid} --replay {{path}}",
        "engine": "vx",
        "level_claimed": {"category": plan.PLAN[pid].get("level", "proof"), "text": t["text"], "design_ref": t["design_ref"]},
        "level_note": t["note"],
        "technique": t["technique"],
    })
na = [{"property_id": pid, "reason": T.NOT_APPLICABLE[pid]} for pid in props if pid not in plan.PLAN]
m = {
    "version": 1,
    "setup_cmd": "./setup.sh",
    "hooks": {
        "guard": "cfg(kani) (set by cargo kani) and --cfg osrg_rustybgp_verif",
        "enable": "Verus lane needs no hook (items are wrapped in a scratch copy made from /repo on every run); Kani harnesses and replay tests enter the crates through `#[cfg(kani)] #[path=\"/verif/kani/…\"] mod verif_kani;` / `#[cfg(all(test, osrg_rustybgp_verif))] mod verif_replay;` lines, enabled by `cargo kani` resp. RUSTFLAGS=--cfg osrg_rustybgp_verif",
        "baseline_off_cmd": "cd /repo && cargo nextest run --workspace --no-fail-fast --tool-config-file pb:/w/lib/nextest.toml --profile pb --test-threads 8 --offline",
        "source_commits": T.HOOK_COMMITS,
        "add_only": True,
    },
    "engines": [
        {"name": "vx", "path": "/verif/check", "serves_properties": [c["property_id"] for c in checks],
         "kind_free_text": "contract-based deductive verification: Verus on real items wrapped in place (vx/gen.py + specs/*.vspec), Kani function contracts / harnesses inside the real crates (kani/*.rs)"},
    ],
    "checks": checks,
    "not_applicable": na,
    "notes": T.NOTES,
}
json.dump(m, open(os.path.join(V, "MANIFEST.json"), "w"), indent=1)
print("checks:", [c["property_id"] for c in checks], "n/a:", [n["property_id"] for n in na])
