#!/bin/bash
# recheck_seed.sh <seeded-name> <property>: apply /verif/seeded/<name>/patch.diff to /repo, run ./check, undo.
name=$1; prop=$2
cd /repo && [ -z "$(git status --porcelain)" ] || { echo "repo not clean"; exit 9; }
git apply /verif/seeded/$name/patch.diff || { echo "patch does not apply"; exit 9; }
cd /verif && ./check $prop --tier quick | grep -E "^(VIOLATION|FAILED-OBLIGATION|UNDECIDED|OK |NOTE)" | cut -c1-300 | head -6
git -C /repo checkout -- .
