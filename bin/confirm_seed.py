#!/usr/bin/env python3
"""confirm_seed.py <seed-dir> <property> <dest-name>
Confirms a sub-agent's seeded change in a scratch worktree of /repo (removed afterwards):
  (1) builds, (2) the full test suite passes with the change, (3) the demonstration fails with it,
  (4) the demonstration passes without it.  Then runs ./check <property> against /repo with the change applied
  (and undoes it), and stores everything under /verif/seeded/<dest-name>/.
"""
import json, os, re, shutil, subprocess, sys, time

seed, prop, dest = sys.argv[1:4]
DEMO_NAME = sys.argv[4] if len(sys.argv) > 4 else None
WT = "/tmp/wt-confirm"
def sh(cmd, cwd=None, timeout=3600):
    p = subprocess.run(cmd, shell=True, cwd=cwd, capture_output=True, text=True, timeout=timeout)
    return p.returncode, (p.stdout + p.stderr)

patch = os.path.join(seed, "patch.diff"); demo = os.path.join(seed, "demo.diff")
sh(f"git -C /repo worktree remove --force {WT}")
rc, out = sh(f"git -C /repo worktree add -q --detach {WT} HEAD"); assert rc == 0, out
res = {"property": prop, "seed_dir": seed}
try:
    rc, out = sh(f"git apply {patch}", cwd=WT); res["patch_applies"] = rc == 0
    if rc != 0: raise SystemExit("patch does not apply: " + out)
    env = "CARGO_TARGET_DIR=/tmp/wt-confirm-target"
    rc, out = sh(f"{env} cargo test --workspace --offline 2>&1 | grep -E '^test result|FAILED|panicked|error(\\[|:)' | head -40", cwd=WT)
    passed = sum(int(m) for m in re.findall(r"test result: ok\. (\d+) passed", out))
    failed = "FAILED" in out or "error" in out
    res["suite_with_change"] = {"passed": passed, "failed": failed}
    # demo
    rc, out = sh(f"git apply {demo}", cwd=WT); res["demo_applies_on_change"] = rc == 0
    names = re.findall(r"^\+\s*(?:async\s+)?fn\s+(\w+)\s*\(", open(demo).read(), flags=re.M)
    files = re.findall(r"^\+\+\+ b/(\S+)", open(demo).read(), flags=re.M)
    pkgmap = {"daemon": "rustybgpd", "packet": "rustybgp-packet", "table": "rustybgp-table", "config": "rustybgp-config", "kernel": "rustybgp-kernel", "api": "rustybgp-api"}
    pkg = pkgmap.get(files[0].split("/")[0], "rustybgpd") if files else "rustybgpd"
    tests = [n for n in names if n.startswith("demo") or "demo" in n or True]
    filt = tests[-1] if tests else ""
    # prefer names containing 'demo'
    for n in names:
        if "demo" in n: filt = n
    if DEMO_NAME: filt = DEMO_NAME
    res["demo_test"] = {"package": pkg, "filter": filt}
    rc, out = sh(f"{env} cargo test -p {pkg} --offline {filt} 2>&1 | tail -25", cwd=WT)
    res["demo_with_change_fails"] = ("test result: FAILED" in out) or ("panicked" in out and "test result: ok" not in out)
    res["demo_with_change_tail"] = out[-1500:]
    sh("git checkout -- . && git clean -fdq", cwd=WT)
    rc, out = sh(f"git apply {demo}", cwd=WT)
    rc, out = sh(f"{env} cargo test -p {pkg} --offline {filt} 2>&1 | tail -8", cwd=WT)
    res["demo_without_change_passes"] = "test result: ok" in out and "FAILED" not in out
    ran = re.findall(r"test result: ok\. (\d+) passed", out)
    res["demo_without_change_ran"] = sum(int(x) for x in ran)
    # run the check against the scratch worktree with only the change applied (VX_REPO: same code path as /repo)
    sh("git checkout -- . && git clean -fdq", cwd=WT)
    rc, out = sh(f"git apply {patch}", cwd=WT); assert rc == 0, out
    t0 = time.time()
    rc, out = sh(f"VX_REPO={WT} KX_WS=/var/tmp/kx-ws-confirm ./check {prop} --tier quick", cwd="/verif", timeout=7200)
    res["check"] = {"exit": rc, "wall_s": round(time.time() - t0, 1), "repo": "scratch worktree of /repo HEAD + patch.diff (VX_REPO)",
                    "lines": [l for l in out.split("\n") if l.startswith(("VIOLATION", "FAILED-OBLIGATION", "UNDECIDED", "OK ", "KNOWN-FINDING", "NOTE"))][:12]}
finally:
    sh(f"git -C /repo worktree remove --force {WT}")
    sh("rm -rf /var/tmp/kx-ws-confirm /var/tmp/kx-ws-confirm.lock")
res["detected"] = rc == 1 and any(l.startswith("VIOLATION") for l in res["check"]["lines"])
d = os.path.join("/verif/seeded", dest)
os.makedirs(d, exist_ok=True)
for f in ("patch.diff", "demo.diff", "README.md"):
    if os.path.exists(os.path.join(seed, f)): shutil.copy(os.path.join(seed, f), os.path.join(d, f))
json.dump(res, open(os.path.join(d, "confirm.json"), "w"), indent=1)
print(json.dumps({k: res[k] for k in ("suite_with_change", "demo_test", "demo_with_change_fails", "demo_without_change_passes", "demo_without_change_ran", "check", "detected")}, indent=1))
